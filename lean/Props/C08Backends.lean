import Model.Backends
import Proofs.Backends
import Props.C08
/-!
# C08 (continued) — each concrete storage refines the abstract uid-keyed map

`Model/Backends.lean` writes down what `MemoryStorage`, `RedisStorage`, `MongoStorage`, `SQLStorage` and
`ObservableMutationStorage` do with their clients' primitives.  Here every one of them is shown to be a
*refinement* of `Store.step`: under the abstraction that forgets the representation (serialized bytes, the
session's committed / view split, the notification counter) every operation gives the same output and the same
next abstract state.  Every theorem of `Props/C08.lean` about the abstract map is therefore a theorem about each
backend model; `run_refines` lifts it to every history.
-/
namespace Vakt.C08B
open Vakt.Store Vakt.Backends

/-- a concrete step function refines the abstract store, for operations in `Dom`, on states satisfying `Inv` -/
structure Refines {σ : Type} (stepC : σ → Op → σ × Out × List Call) (abs : σ → St) (cfg : Cfg)
    (Inv : σ → Prop) (Dom : Op → Prop) : Prop where
  inv : ∀ s op, Inv s → Dom op → Inv (stepC s op).1
  state : ∀ s op, Inv s → Dom op → abs (stepC s op).1 = (Store.step cfg (abs s) op).1
  out : ∀ s op, Inv s → Dom op → (stepC s op).2.1 = (Store.step cfg (abs s) op).2

/-- a refinement of single steps is a refinement of whole histories: same outputs, same final abstract state -/
theorem run_refines {σ : Type} {stepC : σ → Op → σ × Out × List Call} {abs : σ → St} {cfg : Cfg}
    {Inv : σ → Prop} {Dom : Op → Prop} (h : Refines stepC abs cfg Inv Dom) :
    ∀ (ops : List Op) (s : σ), Inv s → (∀ op ∈ ops, Dom op) →
      Inv (runC stepC s ops).1 ∧
      abs (runC stepC s ops).1 = (Store.run cfg (abs s) ops).1 ∧
      (runC stepC s ops).2 = (Store.run cfg (abs s) ops).2 := by
  intro ops
  induction ops with
  | nil => intro s hi _; exact ⟨hi, rfl, rfl⟩
  | cons op rest ih =>
    intro s hi hd
    have hop := hd op List.mem_cons_self
    have hrest : ∀ o ∈ rest, Dom o := fun o ho => hd o (List.mem_cons_of_mem _ ho)
    obtain ⟨i1, i2, i3⟩ := ih (stepC s op).1 (h.inv s op hi hop) hrest
    refine ⟨i1, ?_, ?_⟩
    · simp only [runC, Store.run]
      rw [i2, h.state s op hi hop]
    · simp only [runC, Store.run]
      rw [i3, h.state s op hi hop, h.out s op hi hop]

/-- the policy is one the backend can store (`ok = true`), for the backends that accept every policy -/
def AllOk : Op → Prop
  | .add _ _ ok => ok = true
  | .update _ _ ok => ok = true
  | _ => True

def memCfg : Cfg := ⟨false, false⟩
def redisCfg : Cfg := ⟨false, true⟩
def mongoCfg : Cfg := ⟨true, true⟩

/-! ## `MemoryStorage` -/

theorem memGetAll_paged (d : Mem) : IsPaged (memGetAll d) d := by
  intro l o
  unfold memGetAll checkLimitOffset
  by_cases h : l < 0 ∨ o < 0
  · have : (decide (l < 0) || decide (o < 0)) = true := by simpa using h
    simp [this, h]
  · have hb : (decide (l < 0) || decide (o < 0)) = false := by
      simp only [not_or] at h; simp [h.1, h.2]
    simp only [hb, Bool.false_eq_true, ↓reduceIte, h]
    have hl : 0 ≤ l := by omega
    have ho : 0 ≤ o := by omega
    by_cases hz : (decide (o.toNat > d.length) || l == 0) = true
    · simp only [hz, ↓reduceIte]
      simp only [Bool.or_eq_true, decide_eq_true_eq, beq_iff_eq] at hz
      rcases hz with hz | hz
      · rw [page_beyond d _ _ hz]
      · subst hz; simp [page_zero]
    · simp only [hz, Bool.false_eq_true, ↓reduceIte]
      have : (l + o).toNat = l.toNat + o.toNat := by omega
      rw [this, pySlice_eq_page]

/-- **MemoryStorage refines the uid-keyed map** (listing in insertion order) -/
theorem memory_refines : Refines memStep id memCfg (fun _ => True) AllOk := by
  refine ⟨fun _ _ _ _ => trivial, ?_, ?_⟩
  · intro d op _ hd
    cases op with
    | add u p ok =>
      simp only [AllOk] at hd; subst hd
      simp only [memStep, Store.step, id, dictGet_eq_lookup]
      cases hl : lookup u d with
      | none => simp [dictSet_absent u p d (by rw [dictGet_eq_lookup]; exact hl)]
      | some v => simp
    | update u p ok =>
      simp only [AllOk] at hd; subst hd
      simp only [memStep, Store.step, id, dictGet_eq_lookup, memCfg]
      cases hl : lookup u d with
      | none => simp
      | some v =>
        have : (dictGet u d).isSome := by rw [dictGet_eq_lookup, hl]; rfl
        simp [dictSet_present u p d this]
    | delete u =>
      simp only [memStep, Store.step, id, dictGet_eq_lookup]
      cases hl : lookup u d with
      | none => simp [erase_absent u d hl]
      | some v => simp [dictDel_eq_erase]
    | get u => rfl
    | getAll l o =>
      simp only [memStep, Store.step, id]
      split <;> split <;> rfl
    | retrieveAll b =>
      simp only [memStep, Store.step, id]
      split <;> split <;> rfl
    | fault => rfl
  · intro d op _ hd
    cases op with
    | add u p ok =>
      simp only [AllOk] at hd; subst hd
      simp only [memStep, Store.step, id, dictGet_eq_lookup]
      cases hl : lookup u d <;> simp
    | update u p ok =>
      simp only [AllOk] at hd; subst hd
      simp only [memStep, Store.step, id, dictGet_eq_lookup, memCfg]
      cases hl : lookup u d <;> simp
    | delete u =>
      simp only [memStep, Store.step, id, dictGet_eq_lookup]
      cases hl : lookup u d <;> simp
    | get u => simp [memStep, Store.step, dictGet_eq_lookup]
    | getAll l o =>
      simp only [memStep, Store.step, id, memGetAll_paged d l o, listing, memCfg]
      by_cases h : l < 0 ∨ o < 0
      · have : (decide (l < 0) || decide (o < 0)) = true := by simpa using h
        simp [h, this]
      · have : (decide (l < 0) || decide (o < 0)) = false := by
          simp only [not_or] at h; simp [h.1, h.2]
        simp [h, this]
    | retrieveAll b =>
      simp only [memStep, Store.step, id, retr_paged _ d (memGetAll_paged d) b, listing, memCfg]
      by_cases h : b < 0 <;> simp [h]
    | fault => rfl

/-! ## `RedisStorage` -/

theorem redisGetAll_paged (sr : Ser) (h : RHash) : IsPaged (redisGetAll sr h) (feed sr h) := by
  intro l o
  unfold redisGetAll checkLimitOffset
  by_cases hn : l < 0 ∨ o < 0
  · have : (decide (l < 0) || decide (o < 0)) = true := by simpa using hn
    simp [this, hn]
  · have hb : (decide (l < 0) || decide (o < 0)) = false := by
      simp only [not_or] at hn; simp [hn.1, hn.2]
    simp only [hb, Bool.false_eq_true, ↓reduceIte, hn]
    have : (l + o).toNat = l.toNat + o.toNat := by omega
    rw [this]
    unfold islice
    have h2 : l.toNat + o.toNat - o.toNat = l.toNat := by omega
    rw [h2, feed_page]

/-- **RedisStorage refines the uid-keyed map**, for any lawful serializer: the hash of serialized values, read
through `deserialize`, is the map of policies (listing in the order the hash is returned) -/
theorem redis_refines (sr : Ser) (hs : sr.Lawful) :
    Refines (redisStep sr) (feed sr) redisCfg NonEmptyVals AllOk := by
  refine ⟨?_, ?_, ?_⟩
  · intro h op hi hd
    cases op with
    | add u p ok =>
      simp only [redisStep]
      cases hser : sr.ser p with
      | none => exact hi
      | some b =>
        simp only
        split
        · exact hi
        · exact nonEmpty_append h u b (hs.nonempty p b hser) hi
    | update u p ok =>
      simp only [redisStep]
      cases hser : sr.ser p with
      | none => exact hi
      | some b =>
        simp only
        split
        · exact nonEmpty_dictSet h u b (hs.nonempty p b hser) hi
        · exact hi
    | delete u => exact nonEmpty_dictDel h u hi
    | get u =>
      simp only [redisStep]
      split
      · exact hi
      · split <;> exact hi
    | getAll l o => simp only [redisStep]; split <;> exact hi
    | retrieveAll b => simp only [redisStep]; split <;> exact hi
    | fault => exact hi
  · intro h op hi hd
    cases op with
    | add u p ok =>
      simp only [AllOk] at hd; subst hd
      have ht := hs.total p
      cases hser : sr.ser p with
      | none => rw [hser] at ht; cases ht
      | some b =>
        simp only [redisStep, hser, Store.step, lookup_feed]
        cases hg : dictGet u h with
        | none => simp [feed_append, hs.roundtrip p b hser]
        | some v => simp
    | update u p ok =>
      simp only [AllOk] at hd; subst hd
      have ht := hs.total p
      cases hser : sr.ser p with
      | none => rw [hser] at ht; cases ht
      | some b =>
        simp only [redisStep, hser, Store.step, lookup_feed, redisCfg]
        cases hg : dictGet u h with
        | none => simp
        | some v =>
          have : (dictGet u h).isSome := by rw [hg]; rfl
          simp [feed_dictSet_present sr u b h this, hs.roundtrip p b hser]
    | delete u => simp [redisStep, Store.step, feed_dictDel]
    | get u =>
      simp only [redisStep, Store.step]
      split
      · rfl
      · split <;> rfl
    | getAll l o =>
      simp only [redisStep, Store.step]
      split <;> split <;> rfl
    | retrieveAll b =>
      simp only [redisStep, Store.step]
      split <;> split <;> rfl
    | fault => rfl
  · intro h op hi hd
    cases op with
    | add u p ok =>
      simp only [AllOk] at hd; subst hd
      have ht := hs.total p
      cases hser : sr.ser p with
      | none => rw [hser] at ht; cases ht
      | some b =>
        simp only [redisStep, hser, Store.step, lookup_feed]
        cases hg : dictGet u h <;> simp
    | update u p ok =>
      simp only [AllOk] at hd; subst hd
      have ht := hs.total p
      cases hser : sr.ser p with
      | none => rw [hser] at ht; cases ht
      | some b =>
        simp only [redisStep, hser, Store.step, lookup_feed, redisCfg]
        cases hg : dictGet u h <;> simp
    | delete u => rfl
    | get u =>
      simp only [redisStep, Store.step, lookup_feed]
      cases hg : dictGet u h with
      | none => rfl
      | some b =>
        have hne : b ≠ [] := hi (u, b) (dictGet_mem u b h hg)
        have : b.isEmpty = false := by cases b <;> simp_all
        simp [this]
    | getAll l o =>
      simp only [redisStep, Store.step, redisGetAll_paged sr h l o, listing, redisCfg]
      by_cases hn : l < 0 ∨ o < 0
      · have : (decide (l < 0) || decide (o < 0)) = true := by simpa using hn
        simp [hn, this]
      · have : (decide (l < 0) || decide (o < 0)) = false := by
          simp only [not_or] at hn; simp [hn.1, hn.2]
        simp [hn, this]
    | retrieveAll b =>
      have := retr_paged _ (feed sr h) (redisGetAll_paged sr h) b
      rw [feed_length] at this
      simp only [redisStep, Store.step, this, listing, redisCfg]
      by_cases hb : b < 0 <;> simp [hb]
    | fault => rfl

/-- a serializer that raises makes `add` report the policy-exists error (the broad handler of `RedisStorage.add`)
and `update` re-raise; the hash is untouched in both cases -/
theorem redis_serializer_failure (sr : Ser) (h : RHash) (u : Uid) (p : Pol) (ok : Bool) (hf : sr.ser p = none) :
    redisStep sr h (.add u p ok) = (h, .existsErr, []) ∧ redisStep sr h (.update u p ok) = (h, .rejected, []) := by
  simp [redisStep, hf]

/-! ## `MongoStorage` -/

theorem mongoGetAll_paged (c : Coll) : IsPaged (mongoGetAll c) (sortUid c) := by
  intro l o
  unfold mongoGetAll checkLimitOffset
  by_cases hn : l < 0 ∨ o < 0
  · have : (decide (l < 0) || decide (o < 0)) = true := by simpa using hn
    simp [this, hn]
  · have hb : (decide (l < 0) || decide (o < 0)) = false := by
      simp only [not_or] at hn; simp [hn.1, hn.2]
    simp only [hb, Bool.false_eq_true, ↓reduceIte, hn]
    by_cases hz : l = 0
    · subst hz; simp [page_zero]
    · have hz' : (l == 0) = false := by simpa using hz
      have hz'' : l.toNat ≠ 0 := by omega
      simp [hz', mongoFind, hz'', page]

/-- **MongoStorage refines the uid-keyed map** (listing sorted by `_id`; documents are prepared before the client
is called, so a policy that cannot be converted is refused before anything is looked up).  The `limit == 0` guard
is what makes `get_all(0, _)` empty although `find(limit=0)` means "no limit". -/
theorem mongo_refines : Refines mongoStep id mongoCfg (fun _ => True) (fun _ => True) := by
  refine ⟨fun _ _ _ _ => trivial, ?_, ?_⟩
  · intro c op _ _
    cases op with
    | add u p ok =>
      cases ok
      · rfl
      · simp only [mongoStep, Store.step, id, dictGet_eq_lookup]
        cases hl : lookup u c <;> simp
    | update u p ok =>
      cases ok
      · rfl
      · simp only [mongoStep, Store.step, id, dictGet_eq_lookup, mongoCfg]
        cases hl : lookup u c with
        | none => simp
        | some v =>
          have : (dictGet u c).isSome := by rw [dictGet_eq_lookup, hl]; rfl
          simp [dictSet_present u p c this]
    | delete u => simp [mongoStep, Store.step, dictDel_eq_erase]
    | get u => rfl
    | getAll l o =>
      simp only [mongoStep, Store.step, id]
      split <;> (repeat' split) <;> rfl
    | retrieveAll b =>
      simp only [mongoStep, Store.step, id]
      split <;> (repeat' split) <;> rfl
    | fault => rfl
  · intro c op _ _
    cases op with
    | add u p ok =>
      cases ok
      · rfl
      · simp only [mongoStep, Store.step, id, dictGet_eq_lookup]
        cases hl : lookup u c <;> simp
    | update u p ok =>
      cases ok
      · rfl
      · simp only [mongoStep, Store.step, id, dictGet_eq_lookup, mongoCfg]
        cases hl : lookup u c <;> simp
    | delete u => rfl
    | get u => simp [mongoStep, Store.step, dictGet_eq_lookup]
    | getAll l o =>
      simp only [mongoStep, Store.step, id, mongoGetAll_paged c l o, listing, mongoCfg]
      by_cases hn : l < 0 ∨ o < 0
      · have : (decide (l < 0) || decide (o < 0)) = true := by simpa using hn
        simp [hn, this]
      · have : (decide (l < 0) || decide (o < 0)) = false := by
          simp only [not_or] at hn; simp [hn.1, hn.2]
        simp [hn, this]
    | retrieveAll b =>
      have := retr_paged _ (sortUid c) (mongoGetAll_paged c) b
      rw [(sortUid_perm c).length_eq] at this
      simp only [mongoStep, Store.step, id, this, listing, mongoCfg]
      by_cases hb : b < 0 <;> simp [hb]
    | fault => rfl

/-- without the guard, `get_all(0, o)` would return the rest of the collection: the guard is not redundant -/
example : mongoFind [("a".toList, 1), ("b".toList, 2)] 0 0 = [("a".toList, 1), ("b".toList, 2)] := by decide

/-! ## `SQLStorage` -/

open Vakt.SqlSession in
theorem sqlGetAll_paged (s : Sess) : IsPaged (sqlGetAll s) (sortUid s.view) := by
  intro l o
  unfold sqlGetAll checkLimitOffset
  by_cases hn : l < 0 ∨ o < 0
  · have : (decide (l < 0) || decide (o < 0)) = true := by simpa using hn
    simp [this, hn]
  · have hb : (decide (l < 0) || decide (o < 0)) = false := by
      simp only [not_or] at hn; simp [hn.1, hn.2]
    simp only [hb, Bool.false_eq_true, ↓reduceIte, hn]
    have : (o + l).toNat - o.toNat = l.toNat := by omega
    rw [this]
    rfl

open Vakt.SqlSession in
/-- **SQLStorage refines the uid-keyed map** through the writer session's view (listing sorted by uid; the policy is
converted after the row was looked up).  On a clean session the view is also what every other session sees (C15). -/
theorem sql_refines : Refines sqlStep (fun s => s.view) sqlCfg Clean (fun _ => True) := by
  refine ⟨?_, ?_, ?_⟩
  · intro s op hc _
    obtain ⟨h1, h2⟩ := hc
    cases op with
    | add u p ok =>
      cases ok
      · exact ⟨h1, h2⟩
      · simp only [sqlStep, SqlSession.step, Bool.not_true, Bool.false_eq_true, ↓reduceIte]
        cases hl : lookup u s.view <;> simp [Clean, rollback, commit, stage, h2]
    | update u p ok =>
      simp only [sqlStep, SqlSession.step]
      cases hl : lookup u s.view with
      | none => exact ⟨h1, h2⟩
      | some v => cases ok <;> simp [Clean, rollback, commit, stage, h2]
    | delete u => simp [sqlStep, SqlSession.step, Clean, commit, stage]
    | get u => exact ⟨h1, h2⟩
    | getAll l o => simp only [sqlStep]; split <;> exact ⟨h1, h2⟩
    | retrieveAll b => simp only [sqlStep]; split <;> exact ⟨h1, h2⟩
    | fault => exact ⟨h1, h2⟩
  · intro s op hc _
    obtain ⟨h1, h2⟩ := hc
    cases op with
    | add u p ok =>
      cases ok
      · rfl
      · simp only [sqlStep, SqlSession.step, Store.step, Bool.not_true, Bool.false_eq_true, ↓reduceIte]
        cases hl : lookup u s.view <;> simp [rollback, commit, stage, h2]
    | update u p ok =>
      simp only [sqlStep, SqlSession.step, Store.step, sqlCfg]
      cases hl : lookup u s.view with
      | none => simp
      | some v => cases ok <;> simp [rollback, commit, stage, h2]
    | delete u => simp [sqlStep, SqlSession.step, Store.step, commit, stage]
    | get u => rfl
    | getAll l o =>
      simp only [sqlStep, Store.step]
      split <;> split <;> rfl
    | retrieveAll b =>
      simp only [sqlStep, Store.step]
      split <;> split <;> rfl
    | fault => rfl
  · intro s op hc _
    cases op with
    | add u p ok =>
      cases ok
      · rfl
      · simp only [sqlStep, SqlSession.step, Store.step, Bool.not_true, Bool.false_eq_true, ↓reduceIte]
        cases hl : lookup u s.view <;> simp
    | update u p ok =>
      simp only [sqlStep, SqlSession.step, Store.step, sqlCfg]
      cases hl : lookup u s.view with
      | none => simp
      | some v => cases ok <;> simp
    | delete u => rfl
    | get u => simp [sqlStep, Store.step, dictGet_eq_lookup]
    | getAll l o =>
      simp only [sqlStep, Store.step, sqlGetAll_paged s l o, listing, sqlCfg]
      by_cases hn : l < 0 ∨ o < 0
      · have : (decide (l < 0) || decide (o < 0)) = true := by simpa using hn
        simp [hn, this]
      · have : (decide (l < 0) || decide (o < 0)) = false := by
          simp only [not_or] at hn; simp [hn.1, hn.2]
        simp [hn, this]
    | retrieveAll b =>
      have := retr_paged _ (sortUid s.view) (sqlGetAll_paged s) b
      rw [(sortUid_perm s.view).length_eq] at this
      simp only [sqlStep, Store.step, this, listing, sqlCfg]
      by_cases hb : b < 0 <;> simp [hb]
    | fault => rfl

/-! ## `ObservableMutationStorage` -/

/-- **the observable wrapper refines whatever the wrapped storage refines** (it is a proxy) … -/
theorem observable_refines {σ : Type} {stepC : σ → Op → σ × Out × List Call} {abs : σ → St} {cfg : Cfg}
    {Inv : σ → Prop} {Dom : Op → Prop} (h : Refines stepC abs cfg Inv Dom) :
    Refines (obsStep stepC) (fun s => abs s.inner) cfg (fun s => Inv s.inner) Dom :=
  ⟨fun s op hi hd => h.inv s.inner op hi hd, fun s op hi hd => h.state s.inner op hi hd,
   fun s op hi hd => h.out s.inner op hi hd⟩

/-- … and counts exactly one notification for every mutation call that returned, none for a read or for a
mutation that raised (C11's "notifies exactly once after it has been applied, reads never do") -/
theorem observable_notifies {σ : Type} (stepC : σ → Op → σ × Out × List Call) (s : Obs σ) (op : Op) :
    (obsStep stepC s op).1.notified =
      s.notified + (if isMutation op && (stepC s.inner op).2.1 == .done then 1 else 0) := rfl

/-- the notification is the last thing the call does: the wrapped storage's own calls come first -/
theorem observable_notify_last {σ : Type} (stepC : σ → Op → σ × Out × List Call) (s : Obs σ) (op : Op)
    (hm : isMutation op = true) (hd : (stepC s.inner op).2.1 = .done) :
    (obsStep stepC s op).2.2 = (stepC s.inner op).2.2 ++ [.notify] := by
  simp [obsStep, hm, hd]

/-! ## What the refinements buy: the abstract theorems, for each backend model -/

/-- e.g. `failed_mutation_noop` for the Redis model: a mutation that raises leaves the stored policies as they were -/
theorem redis_failed_mutation_noop (sr : Ser) (hs : sr.Lawful) (h : RHash) (hi : NonEmptyVals h) (op : Op)
    (hd : AllOk op)
    (hf : (redisStep sr h op).2.1 = .existsErr ∨ (redisStep sr h op).2.1 = .rejected ∨
          (redisStep sr h op).2.1 = .valueError) :
    feed sr (redisStep sr h op).1 = feed sr h := by
  have r := redis_refines sr hs
  rw [r.state h op hi hd]
  rw [r.out h op hi hd] at hf
  exact C08.failed_mutation_noop redisCfg (feed sr h) op hf

/-- full retrieval through the Mongo model yields the sorted collection once, for every positive batch size -/
theorem mongo_retrieve_all (c : Coll) (b : Int) (hb : 0 < b) :
    (mongoStep c (.retrieveAll b)).2.1 = .pols (sortUid c) := by
  rw [mongo_refines.out c _ trivial trivial]
  have h1 : ¬ b < 0 := by omega
  simp only [Store.step, h1, ↓reduceIte, listing, mongoCfg, id]
  rw [C08.retrieveAll_all _ _ (by omega)]

/-! ### Non-vacuity: a concrete history through each model -/

def demoSer : Ser := ⟨fun p => some [p + 1], fun b => b.headD 1 - 1⟩
theorem demoSer_lawful : demoSer.Lawful :=
  ⟨fun _ => rfl, fun p b h => by simp [demoSer] at h; subst h; simp [demoSer], fun p b h => by
    simp [demoSer] at h; subst h; simp⟩

example : (runC (redisStep demoSer) [] [.add "b".toList 1 true, .add "a".toList 2 true, .add "b".toList 3 true,
    .update "a".toList 4 true, .delete "zz".toList, .get "a".toList, .getAll 5 0, .retrieveAll 1]).2 =
    [.done, .done, .existsErr, .done, .done, .pol (some 4),
     .pols [("b".toList, 1), ("a".toList, 4)], .pols [("b".toList, 1), ("a".toList, 4)]] := by decide

example : (runC mongoStep [] [.add "b".toList 1 true, .add "a".toList 2 true, .add "b".toList 3 true,
    .update "c".toList 9 false, .update "a".toList 4 true, .getAll 0 0, .getAll 5 0, .retrieveAll 1]).2 =
    [.done, .done, .existsErr, .rejected, .done, .pols [],
     .pols [("a".toList, 4), ("b".toList, 1)], .pols [("a".toList, 4), ("b".toList, 1)]] := by decide

example : (runC sqlStep (SqlSession.fresh []) [.add "b".toList 1 true, .add "b".toList 3 true,
    .update "b".toList 9 false, .get "b".toList, .delete "b".toList, .get "b".toList]).2 =
    [.done, .existsErr, .rejected, .pol (some 1), .done, .pol none] := by decide

end Vakt.C08B
