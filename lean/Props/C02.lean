import Model.Guard
import Proofs.Guard
/-!
# C02 — fail-closed totality of decisions

`isAllowed m ans : Bool` is `Guard.is_allowed_check` for a storage answer `ans` (raises / `None`
/ an iterable that may raise before yielding item `n`) and a per-policy match function `m` whose
`.error` results are the raises of checkers, patterns and context rules.  Totality and "strict
boolean" are structural here (the function has type `Bool`); for the code they are decided by the
correspondence run.
-/
namespace Vakt.C02
open Vakt PyVal

/-- every storage-side fault denies: the call raises, returns `None`, or the iteration raises at
any position (including after the last item) -/
theorem fault_denies (m : Policy → R) (xs : List Policy) (n : Nat) (hn : n ≤ xs.length) :
    isAllowed m .raises = false ∧ isAllowed m .nothing = false ∧
    isAllowed m (.items xs (some n)) = false := by
  refine ⟨rfl, rfl, ?_⟩
  simp only [isAllowed, decideAns, hn, ↓reduceIte]
  cases filterM m (xs.take n) <;> rfl

/-- a raise while evaluating any yielded policy (checker, pattern, context rule) denies -/
theorem policy_raise_denies (m : Policy → R) (xs : List Policy) (fa : Option Nat) (p : Policy)
    (hp : p ∈ xs) (e : PyErr) (he : m p = .error e) : isAllowed m (.items xs fa) = false := by
  cases fa with
  | none => exact Vakt.decide_raise m xs p hp e he
  | some n =>
    obtain ⟨e', h'⟩ := filterM_err m xs p hp e he
    have hc : decideCore m xs = .error e' := by unfold decideCore; rw [h']
    have : ∃ e'', decideAns m (.items xs (some n)) = .error e'' := by
      simp only [decideAns]
      split
      · cases filterM m (xs.take n) <;> exact ⟨_, rfl⟩
      · exact ⟨e', hc⟩
    obtain ⟨e'', h''⟩ := this
    simp [isAllowed, h'']

/-- an allow answer is only ever given when the storage answered without fault, nothing raised,
and some stored allow policy matched -/
theorem allow_sound (m : Policy → R) (ans : StoreAns) (h : isAllowed m ans = true) :
    ∃ xs fa, ans = .items xs fa ∧ (∀ n, fa = some n → xs.length < n) ∧ NoRaise m xs ∧
      ∃ p ∈ xs, m p = .ok true ∧ p.allowAccess = true := by
  cases ans with
  | raises => simp [isAllowed, decideAns] at h
  | nothing => simp [isAllowed, decideAns] at h
  | items xs fa =>
    have hfa : ∀ n, fa = some n → xs.length < n := by
      intro n hn
      subst hn
      apply Classical.byContradiction
      intro hlt
      have hle : n ≤ xs.length := Nat.le_of_not_lt hlt
      have := (fault_denies m xs n hle).2.2
      rw [this] at h; cases h
    have hdec : decide m xs = true := by
      cases fa with
      | none => exact h
      | some n =>
        have := hfa n rfl
        simp only [isAllowed, decideAns, Nat.not_le.2 this, ↓reduceIte] at h
        exact h
    rcases raise_or_noRaise m xs with ⟨x, hx, e, hxe⟩ | hr
    · rw [Vakt.decide_raise m xs x hx e hxe] at hdec; cases hdec
    · obtain ⟨⟨p, hp, hm⟩, hall⟩ := (Vakt.decide_iff m xs hr).1 hdec
      exact ⟨xs, fa, rfl, hfa, hr, p, hp, hm, hall p hp hm⟩

/-- injecting raises at any set of evaluation boundaries can only move the answer towards deny -/
theorem fault_monotone (m m' : Policy → R) (ans : StoreAns)
    (hm : ∀ p, m' p = m p ∨ ∃ e, m' p = .error e) (h : isAllowed m' ans = true) :
    isAllowed m ans = true := by
  obtain ⟨xs, fa, rfl, hfa, hr', p, hp, hmp, hal⟩ := allow_sound m' ans h
  have heq : ∀ x ∈ xs, m x = m' x := by
    intro x hx
    rcases hm x with h1 | ⟨e, h2⟩
    · exact h1.symm
    · obtain ⟨b, hb⟩ := hr' x hx
      rw [hb] at h2; cases h2
  have hr : NoRaise m xs := fun x hx => by rw [heq x hx]; exact hr' x hx
  have hdec' : decide m' xs = true := by
    cases fa with
    | none => exact h
    | some n =>
      have := hfa n rfl
      simp only [isAllowed, decideAns, Nat.not_le.2 this, ↓reduceIte] at h
      exact h
  have hdec : decide m xs = true := by
    rw [Vakt.decide_iff m xs hr]
    obtain ⟨_, hall⟩ := (Vakt.decide_iff m' xs hr').1 hdec'
    exact ⟨⟨p, hp, by rw [heq p hp]; exact hmp⟩, fun q hq hmq => hall q hq (by rw [← heq q hq]; exact hmq)⟩
  cases fa with
  | none => exact hdec
  | some n =>
    have := hfa n rfl
    simp only [isAllowed, decideAns, Nat.not_le.2 this, ↓reduceIte]
    exact hdec

/-- a raising context rule is *not* swallowed: it makes the policy's evaluation raise -/
theorem ctx_rule_raise_propagates (q : Inquiry) (d : List (List Char × PyVal)) (k : List Char) (r : Rule)
    (v : PyVal) (rest : List (List Char × AttrVal)) (e : PyErr)
    (hq : q.context = .dict d) (hl : lookup k d = some v) (he : r.eval v (some q) = .error e) :
    ctxLoop q ((k, .rule r) :: rest) = .error e := by
  simp [ctxLoop, hq, hl, he]

/-- a context entry that is not a rule raises (no `satisfied`) -/
theorem ctx_junk_raises (q : Inquiry) (d : List (List Char × PyVal)) (k : List Char) (v : PyVal)
    (rest : List (List Char × AttrVal)) (hq : q.context = .dict d) (hl : lookup k d = some v) :
    ctxLoop q ((k, .junk) :: rest) = .error .raised := by
  simp [ctxLoop, hq, hl]

/-- a context that is not a dictionary raises as soon as a policy has a context restriction -/
theorem ctx_nondict_raises (q : Inquiry) (kv : List Char × AttrVal) (rest : List (List Char × AttrVal))
    (hq : isDict q.context = false) : ctxLoop q (kv :: rest) = .error .raised := by
  obtain ⟨k, a⟩ := kv
  cases hc : q.context <;> simp_all [ctxLoop, isDict]

/-! ### Non-vacuity -/
private def pol (eff : String) (ctx : List (List Char × AttrVal)) : Policy :=
  { uid := .int 1, effect := .str eff.toList, description := .none, subjects := [.str "s".toList],
    resources := [.str "r".toList], actions := [.str "a".toList], context := ctx, stag := '<', etag := '>' }
private def inq : Inquiry :=
  { resource := .str "r".toList, action := .str "a".toList, subject := .str "s".toList,
    context := .dict [("k".toList, .str "x".toList)] }
example : isAllowed (guardMatch .exact inq) (.items [pol "allow" []] Option.none) = true := by decide
example : isAllowed (guardMatch .exact inq) (.items [pol "allow" [], pol "allow" [("k".toList, .rule (.greater (.int 5)))]] Option.none) = false := by decide
example : isAllowed (guardMatch .exact inq) (.items [pol "allow" []] (some 1)) = false := by decide

end Vakt.C02
