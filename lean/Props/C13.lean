import Model.InquiryEq
import Proofs.InquiryEq
/-!
# C13 — inquiry equality and hash are content-based and process-stable
-/
namespace Vakt.C13
open Vakt PyVal

/-- two inquiries compare equal exactly when their canonical forms are the same tree -/
theorem eq_iff_canon (a b : Inquiry) : a.eqv b = true ↔ a.canon = b.canon := beqVal_iff _ _

/-- … i.e. when resource, action, subject and context have the same canonical content -/
theorem eq_iff_fields (a b : Inquiry) :
    a.eqv b = true ↔ canon a.action = canon b.action ∧ canon a.context = canon b.context ∧
      canon a.resource = canon b.resource ∧ canon a.subject = canon b.subject := by
  rw [eq_iff_canon]
  simp [Inquiry.canon]

/-- equality is an equivalence relation -/
theorem eqv_equivalence (a b c : Inquiry) :
    a.eqv a = true ∧ (a.eqv b = true → b.eqv a = true) ∧ (a.eqv b = true → b.eqv c = true → a.eqv c = true) := by
  simp only [eq_iff_canon]
  exact ⟨trivial, fun h => h.symm, fun h1 h2 => h1.trans h2⟩

/-- equal inquiries have equal hashes, whatever the text rendering and whatever the hash of the
text's code points is — in particular in every process, whatever the string-hash seed -/
theorem eq_hash {τ η : Type} (render : PyVal → τ) (H : τ → η) (a b : Inquiry) (h : a.eqv b = true) :
    H (render a.canon) = H (render b.canon) := by
  rw [(eq_iff_canon a b).1 h]

/-- dictionary key order is irrelevant: permuting the entries of a dictionary (with distinct keys)
does not change the canonical form … -/
theorem key_order_irrelevant (kvs kvs' : List (List Char × PyVal)) (hp : kvs.Perm kvs')
    (hd : (kvs.map Prod.fst).Nodup) : canon (.dict kvs) = canon (.dict kvs') := by
  simp only [canon]
  congr 1
  apply sortKV_perm_eq _ _ (canonKVs_perm hp)
  rw [canonKVs_keys]; exact hd

/-- … at any depth: the canonical form of a container depends on its children only through their
canonical forms -/
theorem canon_congr :
    (∀ xs ys : List PyVal, canonList xs = canonList ys → canon (.list xs) = canon (.list ys) ∧
        canon (.tuple xs) = canon (.tuple ys)) ∧
    (∀ (k : List Char) (v v' : PyVal) (rest : List (List Char × PyVal)), canon v = canon v' →
        canon (.dict ((k, v) :: rest)) = canon (.dict ((k, v') :: rest))) := by
  constructor
  · intro xs ys h; simp [canon, h]
  · intro k v v' rest h; simp [canon, canonKVs, h]

/-- canonicalisation is idempotent on well-formed values (so the canonical text is a normal form) -/
theorem canon_atoms (v : PyVal) (h : match v with | .list _ => False | .tuple _ => False | .dict _ => False | _ => True) :
    canon v = v := by
  cases v <;> simp_all [canon]

/-- the type distinctions the JSON text keeps are kept: `1`, `1.0` and `True` are three different
contents, and so are a list and the tuple of the same items, and `''` and a missing value -/
theorem type_distinctions (xs : List PyVal) :
    canon (.int 1) ≠ canon (.flt 1 0) ∧ canon (.int 1) ≠ canon (.bool true) ∧
    canon (.flt 1 0) ≠ canon (.bool true) ∧ canon (.list xs) ≠ canon (.tuple xs) ∧
    canon (.str []) ≠ canon .none ∧ canon (.int 0) ≠ canon (.bool false) := by
  simp [canon]

/-- a one-point difference in a list item or a dictionary value is a difference of the whole -/
theorem one_point_distinct (x y : PyVal) (pre post : List PyVal) (h : canon x ≠ canon y) :
    canon (.list (pre ++ x :: post)) ≠ canon (.list (pre ++ y :: post)) := by
  have step : ∀ pre : List PyVal, canonList (pre ++ x :: post) ≠ canonList (pre ++ y :: post) := by
    intro pre
    induction pre with
    | nil => simp [canonList, h]
    | cons a t ih => simp [canonList, ih]
  simp [canon, step pre]

/-- a dictionary with an extra key is different content -/
theorem extra_key_distinct (kvs : List (List Char × PyVal)) (k : List Char) (v : PyVal) :
    canon (.dict ((k, v) :: kvs)) ≠ canon (.dict kvs) := by
  simp only [canon, ne_eq, PyVal.dict.injEq]
  intro h
  have h1 := (sortKV_perm (canonKVs ((k, v) :: kvs))).length_eq
  have h2 := (sortKV_perm (canonKVs kvs)).length_eq
  have l1 : (canonKVs ((k, v) :: kvs)).length = (canonKVs kvs).length + 1 := by simp [canonKVs]
  rw [h] at h1
  omega

/-- omitted or empty fields normalise to the empty string, an omitted or empty context to `{}` -/
theorem norm_falsy (r a s c : PyVal) :
    (truthy r = false → (Inquiry.mk' r a s c).resource = .str []) ∧
    (truthy a = false → (Inquiry.mk' r a s c).action = .str []) ∧
    (truthy s = false → (Inquiry.mk' r a s c).subject = .str []) ∧
    (truthy c = false → (Inquiry.mk' r a s c).context = .dict []) := by
  refine ⟨fun h => ?_, fun h => ?_, fun h => ?_, fun h => ?_⟩ <;> simp [Inquiry.mk', h]

/-- hence `Inquiry()`, `Inquiry(resource=None)` and `Inquiry(resource='', context={})` are one inquiry -/
theorem empty_forms_equal :
    (Inquiry.mk' .none .none .none .none).eqv (Inquiry.mk' (.str []) (.tuple []) (.int 0) (.dict [])) = true := by
  decide

/-! ### Non-vacuity -/
example : (Inquiry.mk' (.dict [("b".toList, .int 1), ("a".toList, .dict [("y".toList, .none), ("x".toList, .bool true)])])
      (.str "get".toList) .none .none).eqv
    (Inquiry.mk' (.dict [("a".toList, .dict [("x".toList, .bool true), ("y".toList, .none)]), ("b".toList, .int 1)])
      (.str "get".toList) (.str []) (.dict [])) = true := by decide
example : (Inquiry.mk' (.list [.int 1]) .none .none .none).eqv (Inquiry.mk' (.tuple [.int 1]) .none .none .none) = false := by
  decide

end Vakt.C13
