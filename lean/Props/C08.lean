import Model.Store
import Proofs.Store
/-!
# C08 — every storage is a uid-keyed map; failed mutations change nothing

Theorems about the abstract storage `Store.step` that every backend and wrapper is compared with.
-/
namespace Vakt.C08
open Vakt.Store

/-- adding an existing uid is refused with the policy-exists error and changes nothing -/
theorem add_existing_refused (cfg : Cfg) (s : St) (u : Uid) (p p0 : Pol) (h : lookup u s = some p0) :
    step cfg s (.add u p true) = (s, .existsErr) := by simp [step, h]

/-- adding a fresh uid stores exactly that binding and keeps every other one -/
theorem add_fresh (cfg : Cfg) (s : St) (u : Uid) (p : Pol) (h : lookup u s = none) :
    (step cfg s (.add u p true)).2 = .done ∧
    ∀ u', lookup u' (step cfg s (.add u p true)).1 = if u' = u then some p else lookup u' s := by
  simp only [step, h, Bool.not_true, Bool.false_eq_true, ↓reduceIte, true_and]
  intro u'
  rw [lookup_append]
  by_cases e : u' = u
  · subst e; simp [h, lookup]
  · have : ¬ u = u' := fun x => e x.symm
    cases hl : lookup u' s <;> simp [lookup, this, e]

/-- updating an absent uid changes nothing -/
theorem update_absent_noop (cfg : Cfg) (s : St) (u : Uid) (p : Pol) (ok : Bool) (h : lookup u s = none) :
    (step cfg s (.update u p ok)).1 = s := by
  simp only [step, h]
  split <;> rfl

/-- updating a present uid rebinds exactly that uid -/
theorem update_present (cfg : Cfg) (s : St) (u : Uid) (p p0 : Pol) (h : lookup u s = some p0) :
    (step cfg s (.update u p true)).2 = .done ∧
    ∀ u', lookup u' (step cfg s (.update u p true)).1 = if u' = u then some p else lookup u' s := by
  simp only [step, h, Bool.not_true, Bool.and_false, Bool.false_eq_true, ↓reduceIte, true_and]
  intro u'
  rw [lookup_replace]
  split <;> simp [h]

/-- deleting an absent uid changes nothing; deleting a present one removes exactly that binding -/
theorem delete_spec (cfg : Cfg) (s : St) (u : Uid) (hd : Distinct s) :
    (lookup u s = none → (step cfg s (.delete u)).1 = s) ∧
    (∀ u', lookup u' (step cfg s (.delete u)).1 = if u' = u then none else lookup u' s) := by
  simp only [step]
  refine ⟨erase_absent u s, fun u' => ?_⟩
  split
  · rename_i e; subst e; exact lookup_erase_self u' s hd
  · rename_i e; exact lookup_erase_ne u u' s e

/-- a mutation that raises (policy-exists, or a policy the backend cannot store) leaves the
stored set exactly as it was -/
theorem failed_mutation_noop (cfg : Cfg) (s : St) (op : Op)
    (h : (step cfg s op).2 = .existsErr ∨ (step cfg s op).2 = .rejected ∨ (step cfg s op).2 = .valueError) :
    (step cfg s op).1 = s := by
  cases op with
  | add u p ok =>
    cases ok <;> cases hl : lookup u s <;> simp_all [step]
  | update u p ok =>
    cases ok <;> cases hl : lookup u s <;> cases he : cfg.eagerConvert <;> simp_all [step]
  | delete u => simp [step] at h
  | get u => rfl
  | getAll l o => simp only [step]; split <;> rfl
  | retrieveAll b => simp only [step]; split <;> rfl
  | fault => rfl

/-- reads never change the store -/
theorem reads_pure (cfg : Cfg) (s : St) (u : Uid) (l o b : Int) :
    (step cfg s (.get u)).1 = s ∧ (step cfg s (.getAll l o)).1 = s ∧ (step cfg s (.retrieveAll b)).1 = s := by
  refine ⟨rfl, ?_, ?_⟩ <;> (simp only [step]; split <;> rfl)

/-- the keys stay pairwise distinct under every operation: the store is a map -/
theorem distinct_preserved (cfg : Cfg) (s : St) (op : Op) (hd : Distinct s) : Distinct (step cfg s op).1 := by
  cases op with
  | add u p ok =>
    simp only [step]
    split
    · exact hd
    · split
      · exact hd
      · rename_i hl; exact distinct_snoc u p s hd hl
  | update u p ok =>
    simp only [step]
    split
    · exact hd
    · split
      · exact hd
      · split
        · exact hd
        · exact distinct_replace u p s hd
  | delete u => exact distinct_erase u s hd
  | get u => exact hd
  | getAll l o => simp only [step]; split <;> exact hd
  | retrieveAll b => simp only [step]; split <;> exact hd
  | fault => exact hd

/-- `get` is map lookup -/
theorem get_is_lookup (cfg : Cfg) (s : St) (u : Uid) : (step cfg s (.get u)).2 = .pol (lookup u s) := rfl

/-- limit zero is empty; a negative limit or offset is rejected -/
theorem getAll_edges (cfg : Cfg) (s : St) (o l : Int) (ho : 0 ≤ o) :
    (step cfg s (.getAll 0 o)).2 = .pols [] ∧
    (l < 0 → (step cfg s (.getAll l o)).2 = .valueError) ∧
    (∀ o' : Int, o' < 0 → (step cfg s (.getAll l o')).2 = .valueError) := by
  refine ⟨?_, ?_, ?_⟩
  · have : ¬ o < 0 := by omega
    simp [step, this, page]
  · intro hl; simp [step, hl]
  · intro o' ho'; simp [step, ho']

/-- consecutive pages tile the listing -/
theorem pages_tile (l : St) (k : Nat) (n : Nat) :
    (List.range n).flatMap (fun i => page l k (i * k)) = l.take (n * k) := by
  induction n with
  | zero => simp
  | succ m ih =>
    rw [List.range_succ, List.flatMap_append, ih]
    simp only [List.flatMap_cons, List.flatMap_nil, List.append_nil, page]
    rw [Nat.succ_mul, List.take_add]

/-- … hence the whole collection once enough pages are taken -/
theorem pages_cover (l : St) (k n : Nat) (h : l.length ≤ n * k) :
    (List.range n).flatMap (fun i => page l k (i * k)) = l := by
  rw [pages_tile, List.take_of_length_le h]

/-- full retrieval yields the whole listing, each policy exactly once, for every positive batch
size; the loop's fuel (`length + 1` iterations) is never exhausted -/
theorem retrieveAll_all (l : St) (b : Nat) (hb : 0 < b) : retrieveAll l b = l := by
  unfold retrieveAll
  rw [retrieveLoop_eq l b hb (l.length + 1) 0 (by omega)]
  simp

/-- the listing (sorted or not) is a permutation of the stored bindings -/
theorem listing_perm (cfg : Cfg) (s : St) : (listing cfg s).Perm s := by
  unfold listing
  split
  · exact sortUid_perm s
  · exact List.Perm.refl s

/-- over any history of operations the store remains a map -/
theorem history_distinct (cfg : Cfg) (ops : List Op) : ∀ s, Distinct s → Distinct (run cfg s ops).1 := by
  induction ops with
  | nil => intro s h; exact h
  | cons op rest ih => intro s h; exact ih _ (distinct_preserved cfg s op h)

/-! ### Non-vacuity -/
example : (run ⟨true, false⟩ [] [.add "b".toList 1 true, .add "a".toList 2 true, .add "b".toList 3 true,
    .update "a".toList 4 true, .delete "zz".toList, .getAll 5 0, .retrieveAll 1]).2 =
    [.done, .done, .existsErr, .done, .done,
     .pols [("a".toList, 4), ("b".toList, 1)], .pols [("a".toList, 4), ("b".toList, 1)]] := by decide

end Vakt.C08
