import Proofs.StorageCodec
/-!
# C09 (continued) — what the storages write and read back

`Props/C09Codec.lean` proves the round trip of the JSON text of a policy.  This file carries it through the
storage-specific layers that sit on top of that text (`Model/StorageCodec.lean`):

* **Mongo documents**: the document `__prepare_doc` writes is read back by `__prepare_from_doc` as the policy
  itself (`mongo_roundtrip`); after an `update` (`$set` of the new document onto the stored one) the stored
  document reads back as the *new* policy, whatever the old one left behind — a string-based policy replaced by
  a rule-based one keeps its stale `*_compiled_regex` arrays in the document and they are ignored
  (`mongo_update_roundtrip`); the `_id` always is the uid.
* **SQL rows**: the row and child rows `_save` writes are read back by `to_policy` as the policy with its uid
  as text and its effect reduced to allow / deny by comparison with the allow constant (`sql_roundtrip`) —
  hence as the policy itself when the uid is text and the effect one of the two constants
  (`sql_roundtrip_exact`), and in every case with the same elements, context, description and the same
  `allow_access()` (`sql_meaning_preserved`).  The recorded finding "an integer uid comes back as text" is the
  theorem `sql_int_uid_comes_back_as_text` of the model.
* an element the pattern compiler rejects makes both storages refuse the whole mutation (`*_compile_failure`).
-/
namespace Vakt.C09
open Vakt PyVal Serialize RuleCodec StorageCodec

/-- **Mongo round trip** -/
theorem mongo_roundtrip (c : Compile) (p : Policy) (d : Doc) (h : mongoDoc c p = some d)
    (hw : Policy.wf p = true) (n : Nat) (hn : Policy.depth p ≤ n) :
    fromMongoDoc n p.stag p.etag d = some p := by
  obtain ⟨extra, hs, _⟩ := mongoDoc_shape c p d h
  rw [fromMongoDoc, stripMongo_shape hs]
  exact policy_roundtrip p hw _ n hn

/-- the stored `_id` is the uid of the policy -/
theorem mongo_id_is_uid (c : Compile) (p : Policy) (d : Doc) (h : mongoDoc c p = some d) :
    lookup kId d = some p.uid := by
  obtain ⟨extra, hs, hid⟩ := mongoDoc_shape c p d h
  rw [hs.eq]
  have : ∀ (a : Doc), (∀ kv ∈ a, kv.1 ≠ kId) → lookup kId (a ++ extra) = lookup kId extra := by
    intro a ha
    induction a with
    | nil => rfl
    | cons x rest ih =>
      obtain ⟨k, v⟩ := x
      have hne : ¬ kId = k := fun e => ha (k, v) (List.mem_cons_self ..) e.symm
      simp only [List.cons_append, lookup, hne, ↓reduceIte]
      exact ih (fun kv hkv => ha kv (List.mem_cons_of_mem _ hkv))
  rw [this _ (encPolicy_key_ne_added p _ kId (by simp [addedKeys])), hid]

/-- **Mongo update**: `$set` of the new policy's document onto the stored document of *any* earlier policy
(of either type) reads back as the new policy -/
theorem mongo_update_roundtrip (c : Compile) (p0 p : Policy) (d0 d : Doc)
    (h0 : mongoDoc c p0 = some d0) (h : mongoDoc c p = some d)
    (hw : Policy.wf p = true) (n : Nat) (hn : Policy.depth p ≤ n) :
    fromMongoDoc n p.stag p.etag (setAll d d0) = some p := by
  obtain ⟨x0, hs0, _⟩ := mongoDoc_shape c p0 d0 h0
  obtain ⟨x, hs, _⟩ := mongoDoc_shape c p d h
  have hs' := update_shape hs0 hs
  rw [fromMongoDoc, stripMongo_shape hs']
  exact policy_roundtrip p hw _ n hn

/-- an element of a string-based policy that contains both tags and does not compile: nothing is written -/
theorem mongo_compile_failure (c : Compile) (p : Policy) (hp : strBased p = true) (s : List Char)
    (hs : Elem.str s ∈ p.actions) (ht : hasTags p s = true) (hc : c p.stag p.etag s = Option.none) :
    mongoDoc c p = Option.none := by
  have : mapOpt (compiledElem c p) p.actions = Option.none := by
    generalize p.actions = es at hs
    induction es with
    | nil => cases hs
    | cons e rest ih =>
      rcases List.mem_cons.mp hs with rfl | hr
      · simp [mapOpt, compiledElem, ht, hc]
      · simp only [mapOpt, ih hr]; split <;> simp_all
  simp [mongoDoc, hp, this]

/-! ## SQL rows -/

/-- **SQL round trip**: what `to_policy` rebuilds from the rows `_save` wrote -/
theorem sql_roundtrip (c : Compile) (p : Policy) (row : SqlRow) (h : toRow c p = some row)
    (hw : Policy.wf p = true) (n : Nat) (hn : Policy.depth p ≤ n) :
    ∃ u, storedUid p.uid = some u ∧ toPolicy n p.stag p.etag row = some (sqlNorm p u) := by
  simp only [Policy.wf, Bool.and_eq_true] at hw
  obtain ⟨⟨⟨⟨_, hs⟩, hr⟩, ha⟩, hcx⟩ := hw
  simp only [Policy.depth, max_le_iff'] at hn
  obtain ⟨⟨ds, dr⟩, ⟨da, dc⟩⟩ := hn
  unfold toRow at h
  split at h
  · rename_i u s r a hu hs' hr' ha'
    cases h
    refine ⟨u, hu, ?_⟩
    have hctx : decCtx n (.dict (encAttrs p.context)) = some p.context := by
      simp only [decCtx, dec_enc_attrs _ hcx n dc]
    cases hp : strBased p with
    | true =>
      have hp' := hp
      simp only [strBased, Bool.and_eq_true] at hp'
      have e1 := fromDb_toDb_str c p hp n p.subjects s hp'.1.1 hs'
      have e2 := fromDb_toDb_str c p hp n p.resources r hp'.1.2 hr'
      have e3 := fromDb_toDb_str c p hp n p.actions a hp'.2 ha'
      simp only [toPolicy, typeOf, hp, ↓reduceIte, e1, e2, e3, hctx, sqlNorm, Policy.allowAccess]
      rfl
    | false =>
      have e1 := fromDb_toDb_json c p hp n p.subjects s hs ds hs'
      have e2 := fromDb_toDb_json c p hp n p.resources r hr dr hr'
      have e3 := fromDb_toDb_json c p hp n p.actions a ha da ha'
      simp only [toPolicy, typeOf, hp, Bool.false_eq_true, ↓reduceIte, e1, e2, e3, hctx, sqlNorm, Policy.allowAccess]
      rfl
  · cases h

/-- with a textual uid and one of the two effect constants the policy comes back exactly -/
theorem sql_roundtrip_exact (c : Compile) (p : Policy) (row : SqlRow) (h : toRow c p = some row)
    (hw : Policy.wf p = true) (n : Nat) (hn : Policy.depth p ≤ n)
    (hu : ∃ s, p.uid = .str s)
    (he : p.effect = .str Generated.allowConst ∨ p.effect = .str Generated.denyConst) :
    toPolicy n p.stag p.etag row = some p := by
  obtain ⟨u, hsu, ht⟩ := sql_roundtrip c p row h hw n hn
  obtain ⟨s, hs⟩ := hu
  rw [hs, storedUid] at hsu
  cases hsu
  rw [ht]
  obtain ⟨uid, eff, desc, subj, res, act, ctx, st, et⟩ := p
  simp only at hs he
  subst hs
  have ha : pyEq (.str Generated.allowConst) (.str Generated.allowConst) = true := by decide +kernel
  have hd : pyEq (.str Generated.denyConst) (.str Generated.allowConst) = false := by decide +kernel
  rcases he with rfl | rfl <;> simp [sqlNorm, Policy.allowAccess, ha, hd]

/-- whatever the uid and the effect are, what comes back has the same elements, context, description and tags and
the same `allow_access()`, hence decides every inquiry alike under checkers that do not look at the uid -/
theorem sql_meaning_preserved (c : Compile) (p : Policy) (row : SqlRow) (h : toRow c p = some row)
    (hw : Policy.wf p = true) (n : Nat) (hn : Policy.depth p ≤ n) :
    ∃ p', toPolicy n p.stag p.etag row = some p' ∧ p'.subjects = p.subjects ∧ p'.resources = p.resources ∧
      p'.actions = p.actions ∧ p'.context = p.context ∧ p'.description = p.description ∧
      p'.allowAccess = p.allowAccess := by
  obtain ⟨u, _, ht⟩ := sql_roundtrip c p row h hw n hn
  refine ⟨_, ht, rfl, rfl, rfl, rfl, rfl, ?_⟩
  have ha : pyEq (.str Generated.allowConst) (.str Generated.allowConst) = true := by decide +kernel
  have hd : pyEq (.str Generated.denyConst) (.str Generated.allowConst) = false := by decide +kernel
  cases hx : p.allowAccess <;> simp only [Policy.allowAccess] at hx <;> simp [sqlNorm, Policy.allowAccess, hx, ha, hd]

/-- the recorded finding `uid-type:sqlite`, as a theorem about the model: an integer uid comes back as its
decimal text -/
theorem sql_int_uid_comes_back_as_text (c : Compile) (p : Policy) (row : SqlRow) (k : Int) (hk : p.uid = .int k)
    (h : toRow c p = some row) : row.uid = .str (toString k).toList := by
  unfold toRow at h
  split at h
  · rename_i u _ _ _ hu _ _ _
    cases h
    rw [hk, storedUid] at hu
    cases hu; rfl
  · cases h

theorem sql_compile_failure (c : Compile) (p : Policy) (hp : strBased p = true) (s : List Char)
    (hs : Elem.str s ∈ p.subjects) (ht : hasTags p s = true) (hc : c p.stag p.etag s = Option.none) :
    toRow c p = Option.none := by
  have : mapOpt (elemToDb c p) p.subjects = Option.none := by
    generalize p.subjects = es at hs
    induction es with
    | nil => cases hs
    | cons e rest ih =>
      rcases List.mem_cons.mp hs with rfl | hr
      · simp [mapOpt, elemToDb, hp, ht, hc]
      · simp only [mapOpt, ih hr]; split <;> simp_all
  unfold toRow
  simp only [this]
  split <;> simp_all

/-! ### Non-vacuity: a string-based policy with a tagged element replaced by a rule-based one -/
example :
    let comp : Compile := fun _ _ s => some ('^' :: s ++ ['$'])
    let p0 : Policy := { uid := .str "u".toList, effect := .str Generated.allowConst, description := .none,
                         subjects := [.str "<a.*>".toList], resources := [.str "r".toList], actions := [.str "get".toList],
                         context := [], stag := '<', etag := '>' }
    let p1 : Policy := { p0 with subjects := [.rule (.eq (.int 1))], resources := [.rule .any], actions := [.rule .truthy],
                                 effect := .str Generated.denyConst }
    (match mongoDoc comp p0, mongoDoc comp p1 with
     | some d0, some d1 =>
       d0.length == 12 && d1.length == 9 && (setAll d1 d0).length == 12 &&
       ((fromMongoDoc 3 '<' '>' (setAll d1 d0)).map (fun q => q.subjects.length) == some 1) &&
       ((fromMongoDoc 3 '<' '>' (setAll d1 d0)).map (fun q => strBased q) == some false)
     | _, _ => false) = true ∧
    ((toRow comp p0).map (fun r => r.subjects.map (fun e => e.regex.isSome)) == some [true]) = true := by
  decide +kernel

end Vakt.C09
