import Model.Conc
import Proofs.Store
/-!
# C14 — concurrent decisions and in-memory mutations are linearizable
-/
namespace Vakt.C14
open Vakt.Store Vakt.Conc

theorem discipline_append (l1 l2 : List (Nat × Act)) : ∀ owner o,
    discipline owner (l1 ++ l2) = some o → ∃ o1, discipline owner l1 = some o1 ∧ discipline o1 l2 = some o := by
  induction l1 with
  | nil => intro owner o h; exact ⟨owner, rfl, h⟩
  | cons x rest ih =>
    intro owner o h
    obtain ⟨t, a⟩ := x
    simp only [List.cons_append, discipline] at h ⊢
    cases a with
    | acq =>
      simp only at h ⊢
      split at h
      · rename_i ho; simp only [ho, ↓reduceIte]; exact ih _ _ h
      · cases h
    | rel =>
      simp only at h ⊢
      split at h
      · rename_i ho; simp only [ho, ↓reduceIte]; exact ih _ _ h
      · cases h
    | has u => simp only at h ⊢; split at h; cases h; rename_i hg; simp only [hg, Bool.false_eq_true, ↓reduceIte]; exact ih _ _ h
    | put u => simp only at h ⊢; split at h; cases h; rename_i hg; simp only [hg, Bool.false_eq_true, ↓reduceIte]; exact ih _ _ h
    | del u => simp only at h ⊢; split at h; cases h; rename_i hg; simp only [hg, Bool.false_eq_true, ↓reduceIte]; exact ih _ _ h
    | view => simp only at h ⊢; split at h; cases h; rename_i hg; simp only [hg, Bool.false_eq_true, ↓reduceIte]; exact ih _ _ h
    | next => simp only at h ⊢; split at h; cases h; rename_i hg; simp only [hg, Bool.false_eq_true, ↓reduceIte]; exact ih _ _ h
    | get u => simp only at h ⊢; split at h; cases h; rename_i hg; simp only [hg, Bool.false_eq_true, ↓reduceIte]; exact ih _ _ h

/-- **mutual exclusion**: in a log that respects the lock discipline, every access to the shared
dictionary other than the atomic `get` is made by the thread that holds the lock at that moment -/
theorem lock_mutex (pre post : List (Nat × Act)) (t : Nat) (a : Act) (owner o : Option Nat)
    (h : discipline owner (pre ++ (t, a) :: post) = some o) (hg : a.guarded = true) :
    discipline owner pre = some (some t) := by
  obtain ⟨o1, h1, h2⟩ := discipline_append pre ((t, a) :: post) owner o h
  rw [h1]
  cases a <;> simp [Act.guarded] at hg <;> simp only [discipline, Act.guarded, Bool.true_and] at h2 <;>
    (split at h2
     · cases h2
     · rename_i hne
       simp only [bne_iff_ne, ne_eq, Decidable.not_not] at hne
       rw [hne])

/-- no step of a disciplined log can be a second acquisition: while `t` holds the lock nobody else
enters a critical section, so critical sections are atomic with respect to each other -/
theorem no_interleaving_error (pre post : List (Nat × Act)) (t : Nat) (owner o : Option Nat)
    (h : discipline owner (pre ++ (t, Act.acq) :: post) = some o) : discipline owner pre = some none := by
  obtain ⟨o1, h1, h2⟩ := discipline_append pre ((t, Act.acq) :: post) owner o h
  rw [h1]
  simp only [discipline] at h2
  split at h2
  · rename_i hn; simp only [Option.isNone_iff_eq_none] at hn; rw [hn]
  · cases h2

/-- a snapshot does not change the store: it *is* the store as it stands at that instant -/
theorem snapshot_is_store_version (cfg : Cfg) (s0 : St) (pre : List Ev) (t : Nat) :
    storeAfter cfg s0 (pre ++ [.snap t]) = storeAfter cfg s0 pre := by
  induction pre generalizing s0 with
  | nil => rfl
  | cons e rest ih => cases e <;> simp [storeAfter, ih]

/-- **linearizability of a decision**: in any interleaving of critical sections, the decision whose
snapshot is the `i`-th event answers exactly what an uncached guard answers over the policy set
as it stood at that instant — a point between the call's start and its end -/
theorem decision_linearizable {κ : Type} (cfg : Cfg) (answer : St → κ → Bool) (s0 : St) (pre post : List Ev)
    (t : Nat) (k : κ) :
    answerAt cfg answer s0 (pre ++ .snap t :: post) pre.length k = answer (storeAfter cfg s0 pre) k ∧
    answerAt cfg answer s0 (pre ++ .snap t :: post) (pre.length + 1) k = answer (storeAfter cfg s0 pre) k := by
  constructor
  · simp [answerAt]
  · simp only [answerAt]
    have h2 : List.take (pre.length + 1) (pre ++ Ev.snap t :: post) = pre ++ [Ev.snap t] := by
      rw [show pre ++ Ev.snap t :: post = (pre ++ [Ev.snap t]) ++ post by simp]
      rw [List.take_left' (by simp)]
    rw [h2, snapshot_is_store_version]

/-- **concurrent adds of one uid succeed exactly once**: the critical sections run one after the
other in some order; the first finds the uid absent and stores, all later ones are refused -/
theorem add_once (cfg : Cfg) (u : Uid) (ps : List Pol) (s : St) :
    (addResults cfg s (ps.map fun p => (u, p))).count .done =
      (if lookup u s = none ∧ ps ≠ [] then 1 else 0) ∧
    ∀ o ∈ addResults cfg s (ps.map fun p => (u, p)), o = .done ∨ o = .existsErr := by
  induction ps generalizing s with
  | nil => simp [addResults]
  | cons p rest ih =>
    simp only [List.map_cons, addResults, Store.step, Bool.not_true, Bool.false_eq_true, ↓reduceIte]
    cases hl : lookup u s with
    | some p0 =>
      have := ih s
      simp only [hl, reduceCtorEq, false_and, ↓reduceIte] at this
      constructor
      · simp [List.count_cons, this.1]
      · intro o ho
        rcases List.mem_cons.1 ho with rfl | ho
        · exact Or.inr rfl
        · exact this.2 o ho
    | none =>
      have hl' : lookup u (s ++ [(u, p)]) = some p := by
        rw [lookup_append, hl]; simp [lookup]
      have := ih (s ++ [(u, p)])
      simp only [hl', reduceCtorEq, false_and, ↓reduceIte] at this
      constructor
      · simp [List.count_cons, this.1]
      · intro o ho
        rcases List.mem_cons.1 ho with rfl | ho
        · exact Or.inl rfl
        · exact this.2 o ho

/-! ### the decision cache keyed by generation never serves a stale decision after a mutation returned -/

variable {σ κ : Type} [DecidableEq κ]

def ThreadOk (answer : σ → κ → Bool) (c : CState σ κ) (th : Thread κ) : Prop :=
  match th.phase with
  | .idle => True
  | .computing g _ => g ≤ c.gen
  | .computed g k v => g ≤ c.gen ∧ (th.fresh = true → v = answer c.store k) ∧
      (th.fresh = false → g < c.gen ∨ 0 < c.pending)

/-- every entry of the current generation is the current decision whenever no mutation is in
flight; every in-flight computation is either still valid or will land under an old generation -/
def CInv (answer : σ → κ → Bool) (c : CState σ κ) : Prop :=
  (∀ e ∈ c.cache, e.gen ≤ c.gen ∧ (e.gen = c.gen → c.pending = 0 → e.val = answer c.store e.key)) ∧
  (∀ th ∈ c.threads, ThreadOk answer c th)

theorem mem_set {α : Type} (l : List α) (i : Nat) (x y : α) (h : y ∈ l.set i x) : y = x ∨ y ∈ l := by
  induction l generalizing i with
  | nil => simp at h
  | cons a t ih =>
    cases i with
    | zero => simp at h; rcases h with h | h <;> simp [h]
    | succ j =>
      simp only [List.set_cons_succ, List.mem_cons] at h
      rcases h with h | h
      · right; simp [h]
      · rcases ih j h with e | e
        · exact Or.inl e
        · right; simp [e]

theorem getElem?_mem {α : Type} (l : List α) (i : Nat) (x : α) (h : l[i]? = some x) : x ∈ l :=
  List.mem_of_getElem? h

theorem cstep_inv (answer : σ → κ → Bool) (c : CState σ κ) (e : CEv σ κ) (h : CInv answer c) :
    CInv answer (cstep answer c e).1 := by
  obtain ⟨hc, ht⟩ := h
  cases e with
  | begin t k =>
    simp only [cstep]
    cases hth : c.threads[t]? with
    | none => exact ⟨hc, ht⟩
    | some th =>
      obtain ⟨ph, fr⟩ := th
      cases ph with
      | idle =>
        simp only
        cases lookupC c.gen k c.cache with
        | some v => exact ⟨hc, ht⟩
        | none =>
          refine ⟨hc, fun th' hm => ?_⟩
          rcases mem_set _ _ _ _ hm with rfl | hm'
          · simp [ThreadOk]
          · exact ht th' hm'
      | computing g k' => exact ⟨hc, ht⟩
      | computed g k' v => exact ⟨hc, ht⟩
  | compute t =>
    simp only [cstep]
    cases hth : c.threads[t]? with
    | none => exact ⟨hc, ht⟩
    | some th =>
      obtain ⟨ph, fr⟩ := th
      cases ph with
      | idle => exact ⟨hc, ht⟩
      | computed g k' v => exact ⟨hc, ht⟩
      | computing g k =>
        have hold := ht _ (getElem?_mem _ _ _ hth)
        simp only [ThreadOk] at hold
        refine ⟨hc, fun th' hm => ?_⟩
        rcases mem_set _ _ _ _ hm with rfl | hm'
        · simp only [ThreadOk]; exact ⟨hold, (fun _ => trivial), (fun h => by cases h)⟩
        · exact ht th' hm'
  | finish t =>
    simp only [cstep]
    cases hth : c.threads[t]? with
    | none => exact ⟨hc, ht⟩
    | some th =>
      obtain ⟨ph, fr⟩ := th
      cases ph with
      | idle => exact ⟨hc, ht⟩
      | computing g k => exact ⟨hc, ht⟩
      | computed g k v =>
        have hold := ht _ (getElem?_mem _ _ _ hth)
        simp only [ThreadOk] at hold
        refine ⟨fun e he => ?_, fun th' hm => ?_⟩
        · rcases List.mem_cons.1 he with rfl | he'
          · refine ⟨hold.1, fun hg hp => ?_⟩
            simp only at hg hp ⊢
            cases hf : fr with
            | true => exact hold.2.1 hf
            | false =>
              rcases hold.2.2 hf with h1 | h1
              · omega
              · omega
          · exact hc e he'
        · rcases mem_set _ _ _ _ hm with rfl | hm'
          · simp [ThreadOk]
          · exact ht th' hm'
  | apply f =>
    simp only [cstep]
    refine ⟨fun e he => ⟨(hc e he).1, fun _ hp => by simp at hp⟩, fun th' hm => ?_⟩
    obtain ⟨th0, hm0, rfl⟩ := List.mem_map.1 hm
    have hold := ht th0 hm0
    simp only [ThreadOk] at hold ⊢
    cases hph : th0.phase with
    | idle => simp [hph]
    | computing g k => simp only [hph] at hold ⊢; exact hold
    | computed g k v =>
      simp only [hph] at hold ⊢
      exact ⟨hold.1, (fun h => by cases h), (fun _ => Or.inr (by omega))⟩
  | invalidate =>
    simp only [cstep]
    refine ⟨fun e he => by simp at he, fun th' hm => ?_⟩
    have hold := ht th' hm
    simp only [ThreadOk] at hold ⊢
    cases hph : th'.phase with
    | idle => simp [hph]
    | computing g k => simp only [hph] at hold ⊢; omega
    | computed g k v =>
      simp only [hph] at hold ⊢
      exact ⟨by omega, hold.2.1, (fun _ => Or.inl (by omega))⟩

theorem crun_inv (answer : σ → κ → Bool) (evs : List (CEv σ κ)) : ∀ c, CInv answer c → CInv answer (crun answer c evs) := by
  induction evs with
  | nil => intro c h; exact h
  | cons e rest ih => intro c h; exact ih _ (cstep_inv answer c e h)

theorem lookupC_mem (g : Nat) (k : κ) (cache : List (Entry κ)) (v : Bool) (h : lookupC g k cache = some v) :
    ∃ e ∈ cache, e.gen = g ∧ e.key = k ∧ e.val = v := by
  induction cache with
  | nil => simp [lookupC] at h
  | cons e rest ih =>
    simp only [lookupC] at h
    split at h
    · rename_i hc; simp only [Option.some.injEq] at h; exact ⟨e, by simp, hc.1, hc.2, h⟩
    · obtain ⟨e', he', h'⟩ := ih h; exact ⟨e', by simp [he'], h'⟩

/-- **once every mutation has returned, a cache hit is the current decision**: from an empty cache,
after any interleaving of look-ups, computations, stores, mutations and invalidations, if no
mutation is in flight then whatever the cache serves equals the uncached decision over the current
policy set — no answer computed against an older set survives -/
theorem generation_no_stale (answer : σ → κ → Bool) (s0 : σ) (n : Nat) (evs : List (CEv σ κ)) (k : κ) (v : Bool) :
    let c0 : CState σ κ := { store := s0, gen := 0, pending := 0, cache := [],
                             threads := List.replicate n ⟨.idle, true⟩ }
    let c := crun answer c0 evs
    c.pending = 0 → lookupC c.gen k c.cache = some v → v = answer c.store k := by
  intro c0 c hp hl
  have h0 : CInv answer c0 := by
    refine ⟨fun e he => by simp [c0] at he, fun th hm => ?_⟩
    have := List.eq_of_mem_replicate hm
    subst this; simp [ThreadOk]
  have hinv := crun_inv answer evs c0 h0
  obtain ⟨e, he, hg, hk, hv⟩ := lookupC_mem _ _ _ _ hl
  have := (hinv.1 e he).2 hg hp
  rw [← hv, this, hk]

/-- the scheme as it was (look-ups ignore the generation): a one-preemption schedule leaves a stale
entry that is served after the mutation has returned -/
def lookupOld (k : κ) : List (Entry κ) → Option Bool
  | [] => none
  | e :: rest => if e.key = k then some e.val else lookupOld k rest

theorem stale_insert_possible :
    let answer : Bool → Nat → Bool := fun store _ => store          -- "the policy exists"
    let c0 : CState Bool Nat := { store := true, gen := 0, pending := 0, cache := [], threads := [⟨.idle, true⟩] }
    let c := crun answer c0 [.begin 0 7, .compute 0, .apply (fun _ => false), .invalidate, .finish 0]
    c.pending = 0 ∧ lookupOld 7 c.cache = some true ∧ answer c.store 7 = false ∧ lookupC c.gen 7 c.cache = none := by
  decide

end Vakt.C14
