import Model.Stack
import Props.C11
import Props.C12
import Props.C08
import Props.C01
/-!
# The whole stack refines "a guard over a plain uid-keyed map" (C07 + C11 + C12 composed)

For `create_cached_guard(EnfoldCache(backend, MemoryStorage()), checker, maxsize)` — observable wrapper, enfolding
cache, backend, decision cache — and *every* history of mutation calls and inquiries:

* `stack_transparent` — over any machine whose raising mutations change nothing the guard can see, the decision cache
  is invisible (any lawful cache back-end, hence every LRU capacity);
* `enfold_tracks_backend` — through every history the backend component of the enfolding cache is exactly the plain map
  that received the same mutation calls, every call returns what the plain map returns, and the two stores stay coherent;
* **`full_stack_eq_plain_guard`** — the answers of the whole stack are the answers of an uncached guard over that plain
  map, for every decision function that does not depend on the order in which a storage lists its policies
  (`decide_perm`, C01).
-/
namespace Vakt.StackP
open Vakt.Store Vakt.CachedGuard Vakt.Enfold Vakt.Stack

variable {Ω κ σ : Type}

/-- a mutation call that raised left the candidates as they were -/
def RaisedKeeps (M : Machine Ω) (Inv : Ω → Prop) : Prop :=
  ∀ s op, Inv s → raised (M.mutate s op).2 = true → M.cands (M.mutate s op).1 = M.cands s

def InvKept (M : Machine Ω) (Inv : Ω → Prop) : Prop := ∀ s op, Inv s → Inv (M.mutate s op).1

def Valid (M : Machine Ω) (answer : St → κ → Bool) (mem : σ → κ → Bool → Prop) (g : SG Ω σ) : Prop :=
  ∀ k v, mem g.cache k v → v = answer (M.cands g.st) k

theorem step_st (M : Machine Ω) (answer : St → κ → Bool) (b : Backend κ σ) (g : SG Ω σ) (op : COp κ) :
    (Stack.step M answer b g op).1.st = (match op with | .mutate o => (M.mutate g.st o).1 | _ => g.st) := by
  cases op with
  | mutate o => simp only [Stack.step]; split <;> rfl
  | read => rfl
  | ask k => simp only [Stack.step]; split <;> rfl

theorem step_valid (M : Machine Ω) (Inv : Ω → Prop) (hk : RaisedKeeps M Inv) (hi : InvKept M Inv)
    (answer : St → κ → Bool) (b : Backend κ σ) (mem : σ → κ → Bool → Prop) (hl : b.Lawful mem)
    (g : SG Ω σ) (op : COp κ) (hinv : Inv g.st) (hv : Valid M answer mem g) :
    Inv (Stack.step M answer b g op).1.st ∧ Valid M answer mem (Stack.step M answer b g op).1 ∧
    (∀ k, op = .ask k → (Stack.step M answer b g op).2 = some (answer (M.cands g.st) k)) := by
  cases op with
  | mutate o =>
    simp only [Stack.step]
    split
    · rename_i hr
      refine ⟨hi _ _ hinv, ?_, (fun k h => by cases h)⟩
      intro k v hm
      simp only at hm ⊢
      rw [hk g.st o hinv hr]; exact hv k v hm
    · refine ⟨hi _ _ hinv, ?_, (fun k h => by cases h)⟩
      intro k v hm
      exact absurd hm (hl.mem_clear _ k v)
  | read => exact ⟨hinv, hv, (fun k h => by cases h)⟩
  | ask k0 =>
    simp only [Stack.step]
    cases hlk : b.lookup g.cache k0 with
    | some r =>
      obtain ⟨v, c'⟩ := r
      simp only
      have hmem := hl.hit_mem _ _ _ _ hlk
      refine ⟨hinv, fun k v' hm => hv k v' (hl.hit_sub _ _ _ _ _ _ hlk hm), fun k h => ?_⟩
      cases h
      rw [hv k0 v hmem]
    | none =>
      simp only
      refine ⟨hinv, fun k v' hm => ?_, (fun k h => by cases h; rfl)⟩
      rcases hl.mem_put _ _ _ _ _ hm with ⟨rfl, rfl⟩ | h
      · rfl
      · exact hv k v' h

/-- **the decision cache is invisible over any machine** whose raising mutations change nothing the guard can see -/
theorem stack_transparent (M : Machine Ω) (Inv : Ω → Prop) (hk : RaisedKeeps M Inv) (hi : InvKept M Inv)
    (answer : St → κ → Bool) (b : Backend κ σ) (mem : σ → κ → Bool → Prop) (hl : b.Lawful mem) (ops : List (COp κ)) :
    ∀ g : SG Ω σ, Inv g.st → Valid M answer mem g →
      (Stack.run M answer b g ops).2 = (runPlainM M answer g.st ops).2 := by
  induction ops with
  | nil => intro g _ _; rfl
  | cons op rest ih =>
    intro g hinv hv
    obtain ⟨h1, h2, h3⟩ := step_valid M Inv hk hi answer b mem hl g op hinv hv
    have h4 := step_st M answer b g op
    have := ih _ h1 h2
    cases op with
    | mutate o =>
      simp only [Stack.run, runPlainM]
      simp only at h4
      rw [h4] at this
      have hnone : (Stack.step M answer b g (.mutate o)).2 = none := by simp only [Stack.step]; split <;> rfl
      rw [hnone, this]
    | read =>
      simp only [Stack.run, runPlainM]
      simp only at h4
      rw [h4] at this
      rw [this]; rfl
    | ask k =>
      simp only [Stack.run, runPlainM]
      simp only at h4
      rw [h4] at this
      rw [h3 k rfl, this]

/-! ## The enfolding cache against the plain map -/

def IsMut : Op → Prop
  | .add .. => True | .update .. => True | .delete _ => True | .fault => True | _ => False

theorem not_done_unchanged (cfg : Cfg) (s : St) (u : Uid) (p : Pol) (ok : Bool) :
    ((Store.step cfg s (.add u p ok)).2 ≠ .done → (Store.step cfg s (.add u p ok)).1 = s) ∧
    ((Store.step cfg s (.update u p ok)).2 ≠ .done → (Store.step cfg s (.update u p ok)).1 = s) := by
  constructor
  · cases ok <;> cases hl : lookup u s <;> simp_all [Store.step]
  · cases ok <;> cases hl : lookup u s <;> cases he : cfg.eagerConvert <;> simp_all [Store.step]

/-- one mutation call through a coherent enfolding cache: the backend component moves as the plain map does, the call
returns what the plain map returns, coherence is kept -/
theorem enfold_mutate (cfg : Cfg) (s : EState) (op : Op) (hm : IsMut op) (hc : Coherent s) :
    ((enfoldMachine cfg).mutate s op).1.backend = (Store.step cfg s.backend op).1 ∧
    ((enfoldMachine cfg).mutate s op).2 = (Store.step cfg s.backend op).2 ∧
    Coherent ((enfoldMachine cfg).mutate s op).1 := by
  have hinv := C12.enfold_inv cfg s (toEOp op) hc
  refine ⟨?_, ?_, hinv⟩
  · cases op with
    | add u p ok =>
      simp only [enfoldMachine, toEOp, Enfold.step]
      cases hstep : Store.step cfg s.backend (.add u p ok) with
      | mk b' o =>
        have hnd := (not_done_unchanged cfg s.backend u p ok).1
        rw [hstep] at hnd
        cases o <;> simp_all
    | update u p ok =>
      simp only [enfoldMachine, toEOp, Enfold.step]
      cases hstep : Store.step cfg s.backend (.update u p ok) with
      | mk b' o =>
        have hnd := (not_done_unchanged cfg s.backend u p ok).2
        rw [hstep] at hnd
        cases o <;> simp_all
    | delete u => rfl
    | fault => rfl
    | get u => exact absurd hm id
    | getAll l o => exact absurd hm id
    | retrieveAll b => exact absurd hm id
  · cases op with
    | add u p ok => exact (C12.mutation_returns_backend_value cfg s u p ok hc).1
    | update u p ok => exact (C12.mutation_returns_backend_value cfg s u p ok hc).2
    | delete u => rfl
    | fault => rfl
    | get u => exact absurd hm id
    | getAll l o => exact absurd hm id
    | retrieveAll b => exact absurd hm id

/-- the candidates the guard gets from a coherent enfolding cache are the backend's policies, up to order -/
theorem enfold_cands_perm (cfg : Cfg) (s : EState) (hc : Coherent s) :
    ((enfoldMachine cfg).cands s).Perm s.backend :=
  perm_of_same_lookup _ _ hc.1 hc.2.1 hc.2.2

theorem enfold_raisedKeeps (cfg : Cfg) : RaisedKeeps (enfoldMachine cfg) Coherent := by
  intro s op hc hr
  cases op with
  | add u p ok =>
    have h2 := (C12.mutation_returns_backend_value cfg s u p ok hc).1
    have : (Store.step cfg s.backend (.add u p ok)).2 ≠ .done := by
      intro e
      simp only [enfoldMachine, toEOp] at hr
      rw [h2, e] at hr; cases hr
    exact congrArg EState.cache (C12.failure_propagates_unchanged cfg s (.add u p ok) this).1
  | update u p ok =>
    have h2 := (C12.mutation_returns_backend_value cfg s u p ok hc).2
    have : (Store.step cfg s.backend (.update u p ok)).2 ≠ .done := by
      intro e
      simp only [enfoldMachine, toEOp] at hr
      rw [h2, e] at hr; cases hr
    exact congrArg EState.cache (C12.failure_propagates_unchanged cfg s (.update u p ok) this).1
  | delete u => simp [enfoldMachine, toEOp, Enfold.step, raised] at hr
  | fault => rfl
  | get u => simp only [enfoldMachine, toEOp, Enfold.step]; split <;> rfl
  | getAll l o => simp only [enfoldMachine, toEOp, Enfold.step]; split <;> rfl
  | retrieveAll b => simp only [enfoldMachine, toEOp, Enfold.step]; split <;> rfl

theorem enfold_invKept (cfg : Cfg) : InvKept (enfoldMachine cfg) Coherent :=
  fun s op hc => C12.enfold_inv cfg s (toEOp op) hc

/-- every operation of the history is a mutation call, a read (no effect) or an inquiry -/
def MutOnly : List (COp κ) → Prop
  | [] => True
  | .mutate o :: rest => IsMut o ∧ MutOnly rest
  | _ :: rest => MutOnly rest

/-- **an uncached guard over the enfolding cache answers like an uncached guard over the plain map** that received the
same mutation calls, for a decision function that ignores the listing order -/
theorem enfold_tracks_backend (cfg : Cfg) (answer : St → κ → Bool)
    (hperm : ∀ (a b : St) (k : κ), a.Perm b → answer a k = answer b k) (ops : List (COp κ)) :
    ∀ s : EState, Coherent s → MutOnly ops →
      (runPlainM (enfoldMachine cfg) answer s ops).2 = (runPlain cfg answer s.backend ops).2 := by
  induction ops with
  | nil => intro s _ _; rfl
  | cons op rest ih =>
    intro s hc hm
    cases op with
    | mutate o =>
      obtain ⟨h1, _, h3⟩ := enfold_mutate cfg s o hm.1 hc
      simp only [runPlainM, runPlain]
      rw [ih _ h3 hm.2, h1]
    | read =>
      simp only [runPlainM, runPlain]
      rw [ih s hc hm]
    | ask k =>
      simp only [runPlainM, runPlain]
      rw [ih s hc hm, hperm _ _ k (enfold_cands_perm cfg s hc)]

/-- **the whole stack — observable wrapper, enfolding cache over any backend configuration, decision cache with any
lawful back-end — answers every inquiry of every history exactly as an uncached guard over a plain uid-keyed map that
received the same mutation calls** -/
theorem full_stack_eq_plain_guard (cfg : Cfg) (answer : St → κ → Bool)
    (hperm : ∀ (a b : St) (k : κ), a.Perm b → answer a k = answer b k)
    (b : Backend κ σ) (mem : σ → κ → Bool → Prop) (hl : b.Lawful mem)
    (s : EState) (hc : Coherent s) (ops : List (COp κ)) (hm : MutOnly ops) :
    (Stack.run (enfoldMachine cfg) answer b (Stack.initial b s) ops).2 = (runPlain cfg answer s.backend ops).2 := by
  rw [stack_transparent (enfoldMachine cfg) Coherent (enfold_raisedKeeps cfg) (enfold_invKept cfg) answer b mem hl ops
        (Stack.initial b s) hc (fun k v h => absurd h (hl.mem_init k v))]
  exact enfold_tracks_backend cfg answer hperm ops s hc hm

/-- … in particular with the default LRU decision cache of any capacity, over an enfolding cache populated from any
backend with any positive batch size -/
theorem full_stack_lru_populated [DecidableEq κ] (cfg : Cfg) (answer : St → κ → Bool)
    (hperm : ∀ (a b : St) (k : κ), a.Perm b → answer a k = answer b k) (cap : Option Nat)
    (backend : St) (hd : Distinct backend) (batch : Nat) (hb : 0 < batch) (ops : List (COp κ)) (hm : MutOnly ops) :
    (Stack.run (enfoldMachine cfg) answer (lruBackend cap)
        (Stack.initial (lruBackend cap) (Enfold.step cfg ⟨[], backend⟩ (.populate batch)).1) ops).2 =
      (runPlain cfg answer backend ops).2 := by
  have hc := (C12.populate_any_batch cfg backend batch hb hd).1
  have hbk : (Enfold.step cfg ⟨[], backend⟩ (.populate batch)).1.backend = backend := rfl
  rw [full_stack_eq_plain_guard cfg answer hperm (lruBackend cap) C11.lruMem (C11.lru_lawful cap) _ hc ops hm, hbk]

/-- **with vakt's own decision procedure**: `tbl` says which policy a stored content id stands for; the guard of the
stack and the reference guard run `Guard.decide` with any of the four checkers.  The hypothesis of
`full_stack_eq_plain_guard` is discharged by `decide_perm` (C01). -/
theorem full_stack_guard_decide (cfg : Cfg) (kind : CheckerKind) (tbl : Pol → Policy)
    (b : Backend Inquiry σ) (mem : σ → Inquiry → Bool → Prop) (hl : b.Lawful mem)
    (s : EState) (hc : Coherent s) (ops : List (COp Inquiry)) (hm : MutOnly ops) :
    let answer : St → Inquiry → Bool := fun st q => guardDecide kind (st.map fun kv => tbl kv.2) q
    (Stack.run (enfoldMachine cfg) answer b (Stack.initial b s) ops).2 = (runPlain cfg answer s.backend ops).2 := by
  intro answer
  apply full_stack_eq_plain_guard cfg answer ?_ b mem hl s hc ops hm
  intro a c q hp
  exact C01.decide_perm _ _ _ (hp.map _)

/-! ### Non-vacuity: a history with a failing mutation, an eviction and a repeated inquiry -/
example :
    let answer : St → Nat → Bool := fun s k => s.any (fun kv => kv.2 == k)
    let ops : List (COp Nat) := [.ask 1, .mutate (.add "a".toList 1 true), .ask 1, .ask 2, .mutate (.add "a".toList 2 true),
                                 .ask 2, .mutate (.update "a".toList 2 true), .ask 1, .ask 2, .mutate (.delete "a".toList), .ask 2]
    (Stack.run (enfoldMachine ⟨true, false⟩) answer (lruBackend (some 1))
        (Stack.initial (lruBackend (some 1)) ⟨[], []⟩) ops).2 =
      [some false, none, some true, some false, none, some false, none, some false, some true, none, some false] := by
  decide

end Vakt.StackP
