import Proofs.RuleCodec
import Model.Guard
/-!
# C09 (continued) — the rule and policy codec round trip

What `jsonpickle` writes for a rule object, an element, a context and a whole policy is modelled
by `RuleCodec.enc*`, what `Policy.from_json` rebuilds from it by `RuleCodec.dec*` (the model's
encodings are compared with the implementation's JSON text by the correspondence run).  For every
well-formed policy — no junk where a rule is expected, no reserved jsonpickle tag used as a
dictionary key inside a rule argument, truthy effect — reading back what was written gives the
policy itself, hence the same answer to every inquiry under every checker.
-/
namespace Vakt.C09
open Vakt PyVal Serialize RuleCodec

/-- the class path determines the rule class: the table regenerated from /repo has no repetition -/
theorem rule_classes_distinct : classes.Nodup := classes_nodup

/-- **rule round trip**, for every rule (any nesting depth) and any sufficient fuel -/
theorem rule_roundtrip (r : Rule) (h : Rule.wf r = true) (n : Nat) (hn : Rule.depth r ≤ n) :
    decRule n (encRule r) = some r := dec_enc_rule r h n hn

/-- a rule read back decides every value and inquiry as the rule that was written -/
theorem rule_meaning_preserved (r : Rule) (h : Rule.wf r = true) (w : PyVal) (q : Option Inquiry) :
    (decRule (Rule.depth r) (encRule r)).map (fun r' => Rule.eval r' w q) = some (Rule.eval r w q) := by
  rw [dec_enc_rule r h _ (Nat.le_refl _)]; rfl

theorem elem_roundtrip (e : Elem) (h : Elem.wf e = true) (n : Nat) (hn : Elem.depth e ≤ n) :
    decElem n (encElem e) = some e := dec_enc_elem e h n hn

/-- **policy round trip**: a well-formed policy is read back from the document it was written as,
with every element and context rule rebuilt — whatever type number was stored with it -/
theorem policy_roundtrip (p : Policy) (h : Policy.wf p = true) (typ : PyVal) (n : Nat) (hn : Policy.depth p ≤ n) :
    decPolicy n p.stag p.etag (encPolicy p typ) = some p := by
  simp only [Policy.wf, Bool.and_eq_true] at h
  obtain ⟨⟨⟨⟨he, hs⟩, hr⟩, ha⟩, hc⟩ := h
  simp only [Policy.depth, max_le_iff'] at hn
  obtain ⟨⟨ds, dr⟩, ⟨da, dc⟩⟩ := hn
  have hdoc : fromDoc (encPolicy p typ) = .ok
      { uid := p.uid, effect := p.effect, description := p.description,
        subjects := .list (p.subjects.map encElem), resources := .list (p.resources.map encElem),
        actions := .list (p.actions.map encElem), context := .dict (encAttrs p.context) } := by
    have := policy_roundtrip_partial
      { uid := p.uid, effect := p.effect, description := p.description,
        subjects := .list (p.subjects.map encElem), resources := .list (p.resources.map encElem),
        actions := .list (p.actions.map encElem), context := .dict (encAttrs p.context) } typ rfl he
    exact this
  simp only [decPolicy, hdoc, decElems, decCtx, dec_enc_elems _ hs n ds, dec_enc_elems _ hr n dr,
    dec_enc_elems _ ha n da, dec_enc_attrs _ hc n dc]

/-- … hence a policy read back matches exactly the same inquiries, under every checker -/
theorem policy_meaning_preserved (p : Policy) (h : Policy.wf p = true) (typ : PyVal) (n : Nat)
    (hn : Policy.depth p ≤ n) :
    ∃ p', decPolicy n p.stag p.etag (encPolicy p typ) = some p' ∧
      ∀ (fits : Policy → Field → PyVal → Inquiry → R) (q : Inquiry), matchP fits p' q = matchP fits p q :=
  ⟨p, policy_roundtrip p h typ n hn, fun _ _ => rfl⟩

/-- the stored type number never influences what is read back -/
theorem stored_type_irrelevant (p : Policy) (h : Policy.wf p = true) (t1 t2 : PyVal) (n : Nat)
    (hn : Policy.depth p ≤ n) :
    decPolicy n p.stag p.etag (encPolicy p t1) = decPolicy n p.stag p.etag (encPolicy p t2) := by
  rw [policy_roundtrip p h t1 n hn, policy_roundtrip p h t2 n hn]

/-! ### Non-vacuity -/
example :
    let r : Rule := .and [.eq (.tuple [.int 1, .str "a".toList]), .not (.isIn [.int 1]), .inqMatch .subject (some (.str "n".toList)),
                          .regexMatch "a.*".toList, .strEqual "x".toList true]
    Rule.wf r = true ∧ Rule.depth r = 3 ∧ (decRule 3 (encRule r)).isSome = true ∧ (decRule 2 (encRule r)).isSome = false := by
  decide +kernel

/-- the behavioural probes of /repo that feed the generated tables this property rests on could all be run
(a probe that fails leaves its table empty and is named in `Generated.probeFailures`) -/
theorem codec_probes_ok : ¬ ("ruleClasses" ∈ Generated.probeFailures) ∧ ¬ ("mongoMigration3" ∈ Generated.probeFailures) := by decide

end Vakt.C09
