import Model.Migration
import Proofs.Migration
import Proofs.MigrationRestore
/-!
# C18 — migrations run in order, gated by the recorded version, and resume after failure
-/
namespace Vakt.C18
open Vakt.Migration

/-- every `up` invocation of a request is above, and every `down` invocation at or below, the
version recorded at that moment; consecutive invocations of one request are therefore strictly
ascending (up) or strictly descending (down) -/
theorem gated_and_ordered (orders : List Nat) (st : MState) (r : Req) (f : Fault) :
    ∃ new : List Nat,
      (request orders st r f).1.trace = st.trace ++ new.map (fun n => (r.dir, n)) ∧
      chain r.dir st.last new ∧ (∀ n ∈ new, n ∈ orders) := by
  obtain ⟨new, h1, h2, h3⟩ := loop_trace r.dir f (select orders r) 0 st
  refine ⟨new, h1, h2, fun n hn => ?_⟩
  have := h3 n hn
  unfold select at this
  cases hnum : r.number with
  | some m => simp [hnum] at this; exact this.1
  | none =>
    simp only [hnum] at this
    have perm : ∀ l : List Nat, ∀ x, x ∈ sortAsc l → x ∈ l := by
      intro l
      induction l with
      | nil => intro x hx; simp [sortAsc] at hx
      | cons a t ih =>
        intro x hx
        simp only [sortAsc] at hx
        have ins : ∀ (y : Nat) (s : List Nat), x ∈ insertSorted y s → x = y ∨ x ∈ s := by
          intro y s
          induction s with
          | nil => intro h; simpa [insertSorted] using h
          | cons b u ihu =>
            intro h
            simp only [insertSorted] at h
            split at h
            · simpa using h
            · rcases List.mem_cons.1 h with rfl | h
              · simp
              · rcases ihu h with e | e
                · exact Or.inl e
                · exact Or.inr (by simp [e])
        rcases ins a _ hx with e | e
        · simp [e]
        · simp [ih x e]
    cases hdir : r.dir with
    | up => simp only [hdir] at this; exact perm orders n this
    | down => simp only [hdir, List.mem_reverse] at this; exact perm orders n this

/-- the version is recorded after each completed step, so when a request raises, the step that
did not complete is still ahead of the recorded version -/
theorem version_never_past_failed (orders : List Nat) (st st1 : MState) (r : Req) (f : Fault)
    (h : request orders st r f = (st1, true)) :
    ∃ n, st1.trace.getLast? = some (r.dir, n) ∧ gatedB r.dir n st1.last = true :=
  loop_failed_still_gated r.dir f (select orders r) 0 st st1 h

theorem select_pos (orders : List Nat) (r : Req) (hpos : ∀ m ∈ orders, 0 < m) : ∀ m ∈ select orders r, 0 < m := by
  intro m hm
  obtain ⟨new, _, _, h3⟩ := gated_and_ordered orders initial r .none
  -- membership in `select` implies membership in `orders`
  unfold select at hm
  cases hnum : r.number with
  | some k => simp [hnum] at hm; exact hpos m hm.1
  | none =>
    simp only [hnum] at hm
    have perm : ∀ l : List Nat, ∀ x, x ∈ sortAsc l → x ∈ l := by
      intro l
      induction l with
      | nil => intro x hx; simp [sortAsc] at hx
      | cons a t ih =>
        intro x hx
        simp only [sortAsc] at hx
        have ins : ∀ (y : Nat) (s : List Nat), x ∈ insertSorted y s → x = y ∨ x ∈ s := by
          intro y s
          induction s with
          | nil => intro h; simpa [insertSorted] using h
          | cons b u ihu =>
            intro h
            simp only [insertSorted] at h
            split at h
            · simpa using h
            · rcases List.mem_cons.1 h with rfl | h
              · simp
              · rcases ihu h with e | e
                · exact Or.inl e
                · exact Or.inr (by simp [e])
        rcases ins a _ hx with e | e
        · simp [e]
        · simp [ih x e]
    cases hdir : r.dir with
    | up => simp only [hdir] at hm; exact hpos m (perm orders m hm)
    | down => simp only [hdir, List.mem_reverse] at hm; exact hpos m (perm orders m hm)

/-- a failed run is resumed by repeating the request: the interrupted request followed by the same
request without fault ends with the version and schema of the request run without fault -/
theorem resume (orders : List Nat) (hpos : ∀ m ∈ orders, 0 < m) (st st1 : MState) (r : Req) (f : Fault)
    (h : request orders st r f = (st1, true)) :
    core (request orders st1 r .none).1 = core (request orders st r .none).1 :=
  (loop_resume r.dir (select orders r) (select_pos orders r hpos) f 0 st st1 h).2

/-- repeating a completed request does nothing -/
theorem idempotent (orders : List Nat) (hpos : ∀ m ∈ orders, 0 < m) (st : MState) (r : Req) :
    request orders (request orders st r .none).1 r .none = ((request orders st r .none).1, false) := by
  unfold request
  have := loop_none_dead r.dir (select orders r) (select_pos orders r hpos) 0 st
  exact loop_all_dead r.dir .none (select orders r) 0 _ this.2

/-- an unfaulted request never raises -/
theorem completes (orders : List Nat) (st : MState) (r : Req) : (request orders st r .none).2 = false :=
  loop_none_not_raised r.dir (select orders r) 0 st

/-- **a full up followed by a full down restores the initial schema state**: starting with no
schema effect in place (whatever version is recorded), after a whole-set `up` and a whole-set
`down` no schema effect is in place and every migration of the set is again above the recorded
version — for every declaration order of the set -/
theorem up_down_restores (orders : List Nat) (hpos : ∀ m ∈ orders, 0 < m) (st : MState) (hs : st.schema = []) :
    (request orders (request orders st ⟨.up, none⟩ .none).1 ⟨.down, none⟩ .none).1.schema = [] ∧
    ∀ m ∈ orders, (request orders (request orders st ⟨.up, none⟩ .none).1 ⟨.down, none⟩ .none).1.last < m := by
  have hposU := select_pos orders ⟨.up, none⟩ hpos
  have hposD := select_pos orders ⟨.down, none⟩ hpos
  have hup := loop_none_dead .up (select orders ⟨.up, none⟩) hposU 0 st
  have hdown := loop_none_dead .down (select orders ⟨.down, none⟩) hposD 0 (request orders st ⟨.up, none⟩ .none).1
  have hselU : select orders ⟨.up, none⟩ = sortAsc orders := rfl
  have hselD : select orders ⟨.down, none⟩ = (sortAsc orders).reverse := rfl
  constructor
  · apply List.eq_nil_iff_forall_not_mem.2
    intro x hx
    have hdesc : (select orders ⟨.down, none⟩).Pairwise (· ≥ ·) := by
      rw [hselD, List.pairwise_reverse]
      exact (sortAsc_sorted orders).imp (fun h => h)
    have hinv : ∀ m ∈ select orders ⟨.down, none⟩,
        m ≤ (request orders st ⟨.up, none⟩ .none).1.last ∨ m ∉ (request orders st ⟨.up, none⟩ .none).1.schema := by
      intro m hm
      left
      have hm' : m ∈ select orders ⟨.up, none⟩ := by
        rw [hselU]; rw [hselD, List.mem_reverse] at hm; exact hm
      exact hup.2 m hm'
    have h1 := loop_down_schema _ hdesc 0 (request orders st ⟨.up, none⟩ .none).1 hinv x hx
    have h2 := loop_up_schema_sub (select orders ⟨.up, none⟩) 0 st x h1.1
    rw [hs] at h2
    rcases h2 with h2 | h2
    · simp at h2
    · apply h1.2
      rw [hselD, List.mem_reverse]; rw [hselU] at h2; exact h2
  · intro m hm
    have hm' : m ∈ select orders ⟨.down, none⟩ := by
      rw [hselD, List.mem_reverse]; exact mem_sortAsc.2 hm
    exact hdown.2 m hm'

/-- … and when the set is numbered from 1, the recorded version is back at 0 -/
theorem up_down_restores_version (orders : List Nat) (hpos : ∀ m ∈ orders, 0 < m) (h1 : 1 ∈ orders)
    (st : MState) (hs : st.schema = []) :
    (request orders (request orders st ⟨.up, none⟩ .none).1 ⟨.down, none⟩ .none).1.last = 0 := by
  have := (up_down_restores orders hpos st hs).2 1 h1
  omega

/-- the shipped migration sets declare pairwise distinct, positive order numbers -/
theorem shipped_orders_ok :
    Generated.sqlOrders.Nodup ∧ Generated.mongoOrders.Nodup ∧
    (∀ m ∈ Generated.sqlOrders, 0 < m) ∧ (∀ m ∈ Generated.mongoOrders, 0 < m) := by decide

/-! ### Non-vacuity: a failing whole-set run, its resumption, and a full down -/
example :
    let o := [3, 1, 2]
    let a := request o initial ⟨.up, none⟩ (.body 2)
    a.2 = true ∧ a.1.last = 2 ∧ a.1.schema = [1, 2] ∧
    (request o a.1 ⟨.up, none⟩ .none).1.last = 3 ∧
    (request o (request o a.1 ⟨.up, none⟩ .none).1 ⟨.down, none⟩ .none).1.schema = [] := by decide

/-- the behavioural probes of /repo that feed the generated tables this property rests on could all be run
(a probe that fails leaves its table empty and is named in `Generated.probeFailures`) -/
theorem probes_ok : ¬ ("mongo" ∈ Generated.probeFailures) ∧ ¬ ("sqlOrders" ∈ Generated.probeFailures) := by decide

end Vakt.C18
