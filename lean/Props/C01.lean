import Model.Guard
import Proofs.Guard
/-!
# C01 — deny-overrides decision with default deny

`decide m ps` is `Guard.is_allowed` over a storage that hands back the policies `ps`, for an
arbitrary per-policy match function `m` (any checker, any context rules): `m p = .ok true` —
"p matches the inquiry", `.ok false` — it does not, `.error _` — evaluating it raised.
-/
namespace Vakt.C01
open Vakt PyVal

/-- allow ⇔ some policy matches and every matching policy has the allow effect -/
theorem decide_iff (m : Policy → R) (ps : List Policy) (h : NoRaise m ps) :
    decide m ps = true ↔
      (∃ p ∈ ps, m p = .ok true) ∧ (∀ p ∈ ps, m p = .ok true → p.allowAccess = true) :=
  Vakt.decide_iff m ps h

/-- default deny -/
theorem decide_no_match (m : Policy → R) (ps : List Policy) (h : ∀ p ∈ ps, m p = .ok false) :
    decide m ps = false := by
  have hr : NoRaise m ps := fun p hp => ⟨false, h p hp⟩
  cases hd : decide m ps with
  | false => rfl
  | true =>
    obtain ⟨⟨p, hp, hm⟩, _⟩ := (Vakt.decide_iff m ps hr).1 hd
    rw [h p hp] at hm; cases hm

/-- a matching policy without the allow effect vetoes — whatever else matches, whatever raises -/
theorem decide_veto (m : Policy → R) (ps : List Policy) (p : Policy)
    (hp : p ∈ ps) (hm : m p = .ok true) (he : p.allowAccess = false) : decide m ps = false :=
  Vakt.decide_veto m ps p hp hm he

/-- a raise while evaluating any stored policy denies -/
theorem decide_raise (m : Policy → R) (ps : List Policy) (p : Policy) (hp : p ∈ ps)
    (e : PyErr) (he : m p = .error e) : decide m ps = false :=
  Vakt.decide_raise m ps p hp e he

/-- insertion order is irrelevant (raises included) -/
theorem decide_perm (m : Policy → R) (ps ps' : List Policy) (hperm : ps.Perm ps') :
    decide m ps = decide m ps' :=
  Vakt.decide_mem_congr m ps ps' (fun _ => hperm.mem_iff)

/-- re-labelling uids changes nothing, for every checker kind -/
theorem decide_uid_irrelevant (k : CheckerKind) (q : Inquiry) (ps : List Policy) (u : Policy → PyVal) :
    guardDecide k (ps.map fun p => { p with uid := u p }) q = guardDecide k ps q := by
  unfold guardDecide
  apply Vakt.decide_map_congr
  · intro p _
    cases k <;> rfl
  · intro p _; rfl

/-- storing a policy twice changes nothing -/
theorem decide_dup (m : Policy → R) (p : Policy) (ps : List Policy) :
    decide m (p :: p :: ps) = decide m (p :: ps) :=
  Vakt.decide_mem_congr m _ _ (fun x => by simp)

/-- only the exact allow constant counts as allow: `'ALLOW'`, `None`, `''`, `1`, `True` all veto -/
theorem allow_exact_constant (p : Policy) :
    p.allowAccess = true ↔ p.effect = .str Generated.allowConst := by
  unfold Policy.allowAccess
  exact Vakt.pyEq_str_right _ _

/-- the statement for the real guard: checker kind `k`, context restrictions included -/
theorem guard_decide_iff (k : CheckerKind) (q : Inquiry) (ps : List Policy)
    (h : NoRaise (guardMatch k q) ps) :
    guardDecide k ps q = true ↔
      (∃ p ∈ ps, guardMatch k q p = .ok true) ∧
      (∀ p ∈ ps, guardMatch k q p = .ok true → p.effect = .str Generated.allowConst) := by
  unfold guardDecide
  rw [Vakt.decide_iff _ _ h]
  simp only [allow_exact_constant]

/-! ### Non-vacuity -/
private def pol (uid : Int) (eff : String) (act : String) : Policy :=
  { uid := .int uid, effect := .str eff.toList, description := .none, subjects := [.str "s".toList],
    resources := [.str "r".toList], actions := [.str act.toList], context := [], stag := '<', etag := '>' }
private def inq : Inquiry :=
  { resource := .str "r".toList, action := .str "get".toList, subject := .str "s".toList, context := .dict [] }

example : guardDecide .regex [pol 1 "allow" "<g.t>", pol 2 "deny" "put"] inq = true := by decide
example : guardDecide .regex [pol 1 "allow" "<g.t>", pol 2 "ALLOW" "get"] inq = false := by decide
example : NoRaise (guardMatch .regex inq) [pol 1 "allow" "<g.t>", pol 2 "deny" "put"] := by
  intro p hp
  simp at hp
  rcases hp with rfl | rfl
  · exact ⟨true, by decide⟩
  · exact ⟨false, by decide⟩

end Vakt.C01
