import Model.SqlSession
/-!
# C15 — SQL mutations are committed when they return and atomic when they fail
-/
namespace Vakt.C15
open Vakt.Store Vakt.SqlSession

/-- every mutation — whether it returns or raises — leaves the session clean, and the committed
state is exactly what the abstract uid-keyed map says: the effect of a returned operation, and no
change at all for one that raised -/
theorem op_committed_and_clean (s : Sess) (op : Op) (hm : isMut op = true) (hc : Clean s) :
    Clean (SqlSession.step s op).1 ∧
    (SqlSession.step s op).1.committed = (Store.step sqlCfg s.committed op).1 ∧
    (SqlSession.step s op).2 = (Store.step sqlCfg s.committed op).2 := by
  obtain ⟨hd, hv⟩ := hc
  cases op with
  | add u p ok =>
    cases ok with
    | false => simp [SqlSession.step, Store.step, Clean, hd, hv]
    | true =>
      simp only [SqlSession.step, Store.step, Bool.not_true, Bool.false_eq_true, ↓reduceIte, hv]
      cases lookup u s.committed <;> simp [Clean, rollback, commit, stage, hv]
  | update u p ok =>
    simp only [SqlSession.step, Store.step, sqlCfg, Bool.false_and, Bool.false_eq_true, ↓reduceIte, hv]
    cases lookup u s.committed with
    | none => simp [Clean, hd, hv]
    | some p0 => cases ok <;> simp [Clean, rollback, commit, stage, hv]
  | delete u => simp [SqlSession.step, Store.step, Clean, commit, stage, hv]
  | fault => simp [SqlSession.step, Store.step, Clean, hd, hv]
  | get u => simp [isMut] at hm
  | getAll l o => simp [isMut] at hm
  | retrieveAll b => simp [isMut] at hm

theorem run_clean (ops : List Op) (hm : ∀ op ∈ ops, isMut op = true) : ∀ s, Clean s →
    Clean (SqlSession.run s ops).1 ∧
    (SqlSession.run s ops).1.committed = (Store.run sqlCfg s.committed ops).1 ∧
    (SqlSession.run s ops).2 = (Store.run sqlCfg s.committed ops).2 := by
  induction ops with
  | nil => intro s h; exact ⟨h, rfl, rfl⟩
  | cons op rest ih =>
    intro s h
    have h1 := op_committed_and_clean s op (hm op (by simp)) h
    have h2 := ih (fun o ho => hm o (by simp [ho])) _ h1.1
    simp only [SqlSession.run, Store.run]
    rw [← h1.2.1, ← h1.2.2]
    exact ⟨h2.1, h2.2.1, by rw [h2.2.2]⟩

/-- a crash placed after any operation of any history (session discarded without commit, engine
disposed, process killed): what a fresh session then sees is exactly the effect of the operations
that had returned — nothing half-done, nothing lost, nothing undone -/
theorem crash_anywhere (ops : List Op) (hm : ∀ op ∈ ops, isMut op = true) (s0 : St) (k : Nat) :
    (crash (SqlSession.run (fresh s0) (ops.take k)).1).committed = (Store.run sqlCfg s0 (ops.take k)).1 ∧
    (crash (SqlSession.run (fresh s0) (ops.take k)).1).view = (Store.run sqlCfg s0 (ops.take k)).1 := by
  have hm' : ∀ op ∈ ops.take k, isMut op = true := fun o ho => hm o (List.mem_of_mem_take ho)
  have h := run_clean (ops.take k) hm' (fresh s0) ⟨rfl, rfl⟩
  simp only [crash, rollback]
  exact ⟨h.2.1, h.2.1⟩

/-- another session on the same database observes a returned mutation at once -/
theorem other_session_sees (s : Sess) (op : Op) (hm : isMut op = true) (hc : Clean s) :
    (fresh (SqlSession.step s op).1.committed).view = (Store.step sqlCfg s.committed op).1 := by
  simp only [fresh]
  exact (op_committed_and_clean s op hm hc).2.1

/-- a mutation that raises never undoes operations that had already returned -/
theorem no_undo_of_returned (s : Sess) (op : Op) (hm : isMut op = true) (hc : Clean s)
    (hr : (SqlSession.step s op).2 = .existsErr ∨ (SqlSession.step s op).2 = .rejected) :
    (SqlSession.step s op).1.committed = s.committed := by
  have h := op_committed_and_clean s op hm hc
  rw [h.2.1]
  rw [h.2.2] at hr
  cases op with
  | add u p ok => cases ok <;> cases hl : lookup u s.committed <;> simp_all [Store.step]
  | update u p ok => cases ok <;> cases hl : lookup u s.committed <;> simp_all [Store.step, sqlCfg]
  | delete u => simp [Store.step] at hr
  | fault => rfl
  | get u => simp [isMut] at hm
  | getAll l o => simp [isMut] at hm
  | retrieveAll b => simp [isMut] at hm

/-- counter-model: the session discipline of the code as it was before the repairs (no commit in
`delete`, rollback in `update` only on IntegrityError) does *not* have the property -/
example :
    let s := fresh [("y".toList, 1)]
    -- update fails half-way without rollback, then an unrelated add commits: the partial change is published
    let s1 := stage (partialUpdate "y".toList 2) s
    (commit (stage (fun v => v ++ [("z".toList, 3)]) s1)).committed ≠ [("y".toList, 1), ("z".toList, 3)] := by decide

end Vakt.C15
