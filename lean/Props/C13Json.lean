import Model.InquiryEq
import Props.C09
import Props.C13
/-!
# C13 (continued) — an inquiry survives a JSON round trip

`Inquiry.to_json()` writes the attribute dictionary through the value codec of the JSON text (tuples are tagged,
`Serialize.encVal`); `Inquiry.from_json` decodes it and calls the constructor, which normalises falsy fields.
For every inquiry the constructor can produce whose values do not use jsonpickle's reserved tag as a dictionary
key, reading back what was written gives the inquiry itself — hence an equal inquiry with an equal hash.
-/
namespace Vakt.C13
open Vakt PyVal Serialize

def inquiryKeys : List (List Char) := ["resource".toList, "action".toList, "subject".toList, "context".toList]

/-- `Inquiry.to_json()` (the dictionary behind the text) -/
def inquiryToDoc (q : Inquiry) : Doc :=
  [("resource".toList, encVal q.resource), ("action".toList, encVal q.action), ("subject".toList, encVal q.subject),
   ("context".toList, encVal q.context)]

/-- `Inquiry.from_json`: an unknown key is an unexpected keyword argument (`none`); an absent one is `None` -/
def inquiryFromDoc (d : Doc) : Option Inquiry :=
  if d.any (fun kv => !inquiryKeys.contains kv.1) then Option.none
  else some (Inquiry.mk' (decVal (Serialize.get "resource" d)) (decVal (Serialize.get "action" d))
              (decVal (Serialize.get "subject" d)) (decVal (Serialize.get "context" d)))

def normV (v d : PyVal) : PyVal := if truthy v then v else d

theorem normV_idem (v d : PyVal) (hd : truthy d = false) : normV (normV v d) d = normV v d := by
  unfold normV
  cases hv : truthy v
  · simp [hd]
  · simp [hv]

theorem mk'_eq (r a s c : PyVal) :
    Inquiry.mk' r a s c = { resource := normV r (.str []), action := normV a (.str []), subject := normV s (.str []),
                            context := normV c (.dict []) } := rfl

theorem mk'_idem (r a s c : PyVal) :
    Inquiry.mk' (Inquiry.mk' r a s c).resource (Inquiry.mk' r a s c).action (Inquiry.mk' r a s c).subject
      (Inquiry.mk' r a s c).context = Inquiry.mk' r a s c := by
  have ts : truthy (.str []) = false := by decide
  have td : truthy (.dict []) = false := by decide
  rw [mk'_eq r a s c, mk'_eq]
  simp only [normV_idem _ _ ts, normV_idem _ _ td]

/-- **JSON round trip**: what the constructor built is read back from what `to_json` wrote -/
theorem inquiry_roundtrip (r a s c : PyVal)
    (hr : noTags r = true) (ha : noTags a = true) (hs : noTags s = true) (hc : noTags c = true) :
    inquiryFromDoc (inquiryToDoc (Inquiry.mk' r a s c)) = some (Inquiry.mk' r a s c) := by
  have hk : (inquiryToDoc (Inquiry.mk' r a s c)).any (fun kv => !inquiryKeys.contains kv.1) = false := by
    simp only [inquiryToDoc, List.any_cons, List.any_nil, Bool.or_false]
    decide +kernel
  have nts : noTags (.str []) = true := rfl
  have ntd : noTags (.dict []) = true := rfl
  have h1 : noTags (Inquiry.mk' r a s c).resource = true := by simp only [Inquiry.mk']; split <;> assumption
  have h2 : noTags (Inquiry.mk' r a s c).action = true := by simp only [Inquiry.mk']; split <;> assumption
  have h3 : noTags (Inquiry.mk' r a s c).subject = true := by simp only [Inquiry.mk']; split <;> assumption
  have h4 : noTags (Inquiry.mk' r a s c).context = true := by simp only [Inquiry.mk']; split <;> assumption
  simp only [inquiryFromDoc, hk, Bool.false_eq_true, ↓reduceIte, Option.some.injEq]
  have g1 : Serialize.get "resource" (inquiryToDoc (Inquiry.mk' r a s c)) = encVal (Inquiry.mk' r a s c).resource := by
    simp [Serialize.get, inquiryToDoc, lookup]
  have g2 : Serialize.get "action" (inquiryToDoc (Inquiry.mk' r a s c)) = encVal (Inquiry.mk' r a s c).action := by
    simp [Serialize.get, inquiryToDoc, lookup]
  have g3 : Serialize.get "subject" (inquiryToDoc (Inquiry.mk' r a s c)) = encVal (Inquiry.mk' r a s c).subject := by
    simp [Serialize.get, inquiryToDoc, lookup]
  have g4 : Serialize.get "context" (inquiryToDoc (Inquiry.mk' r a s c)) = encVal (Inquiry.mk' r a s c).context := by
    simp [Serialize.get, inquiryToDoc, lookup]
  rw [g1, g2, g3, g4, C09.value_roundtrip _ h1, C09.value_roundtrip _ h2, C09.value_roundtrip _ h3, C09.value_roundtrip _ h4]
  exact mk'_idem r a s c

/-- … so the inquiry read back is equal to the original and hashes alike -/
theorem inquiry_roundtrip_equal {τ η : Type} (render : PyVal → τ) (H : τ → η) (r a s c : PyVal)
    (hr : noTags r = true) (ha : noTags a = true) (hs : noTags s = true) (hc : noTags c = true) :
    ∃ q', inquiryFromDoc (inquiryToDoc (Inquiry.mk' r a s c)) = some q' ∧ q'.eqv (Inquiry.mk' r a s c) = true ∧
      H (render q'.canon) = H (render (Inquiry.mk' r a s c).canon) :=
  ⟨_, inquiry_roundtrip r a s c hr ha hs hc, (eq_iff_canon _ _).2 rfl, rfl⟩

/-- a document with a key the constructor does not know is refused -/
theorem inquiry_unknown_key_refused (d : Doc) (k : List Char) (v : PyVal) (hk : inquiryKeys.contains k = false)
    (hm : (k, v) ∈ d) : inquiryFromDoc d = Option.none := by
  have : d.any (fun kv => !inquiryKeys.contains kv.1) = true :=
    List.any_eq_true.2 ⟨(k, v), hm, by simp only [hk, Bool.not_false]⟩
  simp only [inquiryFromDoc, this, ↓reduceIte]

example : (inquiryFromDoc (inquiryToDoc (Inquiry.mk' (.tuple [.int 1, .dict [("k".toList, .none)]]) .none (.str "s".toList) (.list [])))).map
    (fun q => q.eqv { resource := .tuple [.int 1, .dict [("k".toList, .none)]], action := .str [], subject := .str "s".toList,
                      context := .dict [] }) = some true := by
  decide +kernel

end Vakt.C13
