import Model.Checker
/-!
# C04 — rules checker: OR over elements, AND over attributes, errors never match
-/
namespace Vakt.C04
open Vakt PyVal

/-- one attribute entry is satisfied: the value is a dictionary holding the key, the entry is a
rule, and the rule is satisfied (without raising) by the corresponding value -/
def AttrOk (what : PyVal) (q : Option Inquiry) (kv : List Char × AttrVal) : Prop :=
  ∃ d r w, what = .dict d ∧ kv.2 = .rule r ∧ lookup kv.1 d = some w ∧ r.eval w q = .ok true

/-- the element matches the inquiry value -/
def ElemOk (what : PyVal) (q : Option Inquiry) : Elem → Prop
  | .rule r => r.eval what q = .ok true
  | .attrs kvs => kvs ≠ [] ∧ ∀ kv ∈ kvs, AttrOk what q kv
  | .str _ => False

theorem checkSatisfied_iff (a : AttrVal) (w : PyVal) (q : Option Inquiry) :
    checkSatisfied a w q = true ↔ ∃ r, a = .rule r ∧ r.eval w q = .ok true := by
  cases a with
  | junk => simp [checkSatisfied]
  | rule r =>
    simp only [checkSatisfied]
    cases h : r.eval w q with
    | error e => simp [h]
    | ok b => cases b <;> simp [h]

theorem attrStep_iff (what : PyVal) (q : Option Inquiry) (k : List Char) (a : AttrVal) :
    attrStep what q k a = true ↔ AttrOk what q (k, a) := by
  unfold AttrOk attrStep
  cases what with
  | dict d =>
    simp only
    cases hl : lookup k d with
    | none =>
      simp only [Bool.false_eq_true, false_iff]
      rintro ⟨d', r, w, hd, _, hlw, _⟩
      cases hd
      rw [hl] at hlw; cases hlw
    | some v =>
      simp only [checkSatisfied_iff]
      constructor
      · rintro ⟨r, rfl, hr⟩; exact ⟨d, r, v, rfl, rfl, hl, hr⟩
      · rintro ⟨d', r, w, hd, ha, hlw, hr⟩
        cases hd
        rw [hl] at hlw; cases hlw
        exact ⟨r, ha, hr⟩
  | _ => simp

/-- an attribute dictionary: every listed attribute must be present and satisfied; `{}` never matches -/
theorem attrs_ok_iff (what : PyVal) (q : Option Inquiry) (kvs : List (List Char × AttrVal)) (acc : Bool) :
    attrsLoop what q kvs acc = true ↔
      (kvs = [] ∧ acc = true) ∨ (kvs ≠ [] ∧ ∀ kv ∈ kvs, AttrOk what q kv) := by
  induction kvs generalizing acc with
  | nil => simp [attrsLoop]
  | cons kv rest ih =>
    obtain ⟨k, a⟩ := kv
    simp only [attrsLoop]
    have hs := attrStep_iff what q k a
    cases hres : attrStep what q k a with
    | true =>
      have hok : AttrOk what q (k, a) := hs.1 hres
      simp only [↓reduceIte]
      rw [ih]
      simp only [reduceCtorEq, false_and, ne_eq, not_false_eq_true, true_and, false_or, List.mem_cons,
        forall_eq_or_imp]
      constructor
      · rintro (⟨rfl, _⟩ | ⟨_, h⟩)
        · exact ⟨hok, by simp⟩
        · exact ⟨hok, h⟩
      · rintro ⟨_, h⟩
        cases rest with
        | nil => simp
        | cons x xs => exact Or.inr ⟨by simp, h⟩
    | false =>
      simp only [Bool.false_eq_true, ↓reduceIte, reduceCtorEq, false_and, ne_eq, not_false_eq_true, true_and,
        false_or, List.mem_cons, forall_eq_or_imp, false_iff, not_and]
      intro hok
      rw [hs.2 hok] at hres; cases hres

theorem rulesElem_iff (what : PyVal) (q : Option Inquiry) (e : Elem) :
    rulesElem what q e = true ↔ ElemOk what q e := by
  cases e with
  | str s => simp [rulesElem, ElemOk]
  | rule r =>
    simp only [rulesElem, ElemOk, checkSatisfied_iff]
    constructor
    · rintro ⟨r', h, hr⟩; cases h; exact hr
    · intro h; exact ⟨r, rfl, h⟩
  | attrs kvs =>
    simp only [rulesElem, ElemOk, attrs_ok_iff]
    simp

theorem rulesLoop_iff (what : PyVal) (q : Option Inquiry) (es : List Elem) :
    rulesLoop what q es = true ↔ ∃ e ∈ es, ElemOk what q e := by
  induction es with
  | nil => simp [rulesLoop]
  | cons e rest ih =>
    simp only [rulesLoop]
    split
    · rename_i h
      simp only [true_iff]
      exact ⟨e, by simp, (rulesElem_iff what q e).1 h⟩
    · rename_i h
      rw [ih]
      constructor
      · rintro ⟨x, hx, hok⟩; exact ⟨x, by simp [hx], hok⟩
      · rintro ⟨x, hx, hok⟩
        rcases List.mem_cons.1 hx with rfl | hx
        · exact absurd ((rulesElem_iff what q x).2 hok) h
        · exact ⟨x, hx, hok⟩

/-- the field matches iff at least one of its elements matches -/
theorem rules_field_iff (p : Policy) (f : Field) (what : PyVal) (q : Option Inquiry) :
    rulesFits p f what q = .ok true ↔ ∃ e ∈ p.field f, ElemOk what q e := by
  simp only [rulesFits, Except.ok.injEq]
  exact rulesLoop_iff what q (p.field f)

/-- never an error, whatever raises inside -/
theorem rules_total (p : Policy) (f : Field) (what : PyVal) (q : Option Inquiry) :
    ∃ b, rulesFits p f what q = .ok b := ⟨_, rfl⟩

/-- the position of the matching element in the field is irrelevant -/
theorem rules_pos_irrelevant (p p' : Policy) (f : Field) (what : PyVal) (q : Option Inquiry)
    (hperm : (p.field f).Perm (p'.field f)) : rulesFits p f what q = rulesFits p' f what q := by
  have h1 := rules_field_iff p f what q
  have h2 := rules_field_iff p' f what q
  have : rulesFits p f what q = .ok true ↔ rulesFits p' f what q = .ok true := by
    rw [h1, h2]
    constructor
    · rintro ⟨e, he, hok⟩; exact ⟨e, hperm.mem_iff.1 he, hok⟩
    · rintro ⟨e, he, hok⟩; exact ⟨e, hperm.mem_iff.2 he, hok⟩
  obtain ⟨b1, hb1⟩ := rules_total p f what q
  obtain ⟨b2, hb2⟩ := rules_total p' f what q
  rw [hb1, hb2] at this ⊢
  cases b1 <;> cases b2 <;> simp_all

/-- the listed non-matches: an empty attribute dictionary, a missing attribute, a non-dictionary
value offered to an attribute element, an entry that is not a rule, a rule that raises, a string -/
theorem never_match_cases (what : PyVal) (q : Option Inquiry) :
    ¬ ElemOk what q (.attrs []) ∧
    (∀ k a rest d, what = .dict d → lookup k d = Option.none → ¬ ElemOk what q (.attrs ((k, a) :: rest))) ∧
    (∀ kvs, isDict what = false → ¬ ElemOk what q (.attrs kvs)) ∧
    (∀ k rest, ¬ ElemOk what q (.attrs ((k, .junk) :: rest))) ∧
    (∀ r e, r.eval what q = .error e → ¬ ElemOk what q (.rule r)) ∧
    (∀ s, ¬ ElemOk what q (.str s)) := by
  refine ⟨by simp [ElemOk], ?_, ?_, ?_, ?_, by simp [ElemOk]⟩
  · intro k a rest d hd hl h
    obtain ⟨d', r, w, hd', _, hlw, _⟩ := h.2 (k, a) (by simp)
    rw [hd] at hd'; cases hd'
    simp only at hlw; rw [hl] at hlw; cases hlw
  · intro kvs hnd h
    cases kvs with
    | nil => exact h.1 rfl
    | cons kv rest =>
      obtain ⟨d, _, _, hd, _⟩ := h.2 kv (by simp)
      rw [hd] at hnd; simp [isDict] at hnd
  · intro k rest h
    obtain ⟨_, r, _, _, ha, _⟩ := h.2 (k, .junk) (by simp)
    cases ha
  · intro r e he h
    simp only [ElemOk] at h
    rw [he] at h; cases h

/-! ### Non-vacuity -/
example : rulesFits { (default : Policy) with subjects :=
      [.attrs [("name".toList, .rule (.eq (.str "Max".toList))), ("age".toList, .rule (.greater (.int 17)))]] }
    .subjects (.dict [("age".toList, .int 30), ("name".toList, .str "Max".toList)]) Option.none = .ok true := by decide
example : rulesFits { (default : Policy) with subjects := [.attrs [], .rule .raising, .rule (.less (.str ['a']))] }
    .subjects (.int 3) Option.none = .ok false := by decide

end Vakt.C04
