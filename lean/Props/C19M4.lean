import Proofs.StorageCodec
import Props.C09Storage
import Model.MongoMig
/-!
# C19 (continued) — migration 4 `up`: re-saving every policy through the current storage

`Migration1x2x0To1x4x0.up` reads every stored document through `__prepare_from_doc` and writes it back with
`MongoStorage.update` — a `$set` of the freshly prepared document (`StorageCodec.mongoDoc`) onto the stored one.
Over the storage-codec model: whatever added keys the stored document already carried, the re-saved document reads
back as the same policy (`m4up_preserves_policy`), carries the compiled arrays of a string-based policy
(`m4up_adds_compiled`), and dropping them again with migration 4 `down` gives back the 1.2.0-layout document
(`m4down_m4up`).  A stored document the reader cannot rebuild, or an element that does not compile, makes the step
raise (`none`): the step does not complete and the version is not recorded (C18).
-/
namespace Vakt.C19
open Vakt PyVal Serialize RuleCodec StorageCodec MongoMig

/-- migration 4 `up` on one stored document -/
def m4upDoc (c : Compile) (n : Nat) (stag etag : Char) (d : Doc) : Option Doc :=
  match fromMongoDoc n stag etag d with
  | some p => (mongoDoc c p).map (fun nd => setAll nd d)
  | Option.none => Option.none

/-- the 1.2.0-layout document of a policy: its JSON document and `_id` -/
def doc120 (p : Policy) : Doc := encPolicy p (.int (typeOf p)) ++ [(kId, p.uid)]

theorem doc120_shape (p : Policy) : Shape (doc120 p) p (.int (typeOf p)) [(kId, p.uid)] :=
  ⟨rfl, fun kv h => by simp only [List.mem_cons, List.mem_nil_iff, or_false] at h; subst h; simp [addedKeys]⟩

/-- the re-saved document reads back as the policy that was stored — for any stored document of that policy,
whatever added keys it already carried -/
theorem m4up_preserves_policy (c : Compile) (p : Policy) (t : PyVal) (x d d' : Doc) (n : Nat)
    (hs : Shape d p t x) (hw : Policy.wf p = true) (hn : Policy.depth p ≤ n)
    (h : m4upDoc c n p.stag p.etag d = some d') :
    fromMongoDoc n p.stag p.etag d' = some p := by
  unfold m4upDoc at h
  have hr : fromMongoDoc n p.stag p.etag d = some p := by
    rw [fromMongoDoc, stripMongo_shape hs]; exact C09.policy_roundtrip p hw t n hn
  rw [hr] at h
  cases hm : mongoDoc c p with
  | none => simp [hm] at h
  | some nd =>
    simp only [hm, Option.map_some, Option.some.injEq] at h
    subst h
    obtain ⟨x1, hs1, _⟩ := mongoDoc_shape c p nd hm
    have hs' := update_shape hs hs1
    rw [fromMongoDoc, stripMongo_shape hs']
    exact C09.policy_roundtrip p hw _ n hn

def notCompiled (kv : List Char × PyVal) : Bool := !(compiledFields.map String.toList).contains kv.1

theorem compiled_eq : compiledFields.map String.toList = [kActionsC, kSubjectsC, kResourcesC] := by decide +kernel

/-- migration 4 `down` (drop the compiled arrays) of a document of that shape -/
theorem m4down_shape {d : Doc} {p : Policy} {t : PyVal} {x : Doc} (hs : Shape d p t x) :
    m4down d = .ok (encPolicy p t ++ x.filter notCompiled) := by
  rw [hs.eq]
  simp only [m4down, List.filter_append, Except.ok.injEq]
  congr 1

/-- **up then down restores the 1.2.0 layout**: for a policy stored in the 1.2.0 layout, dropping the compiled
arrays of the re-saved document gives back exactly the document it started from -/
theorem m4down_m4up (c : Compile) (p : Policy) (d' : Doc) (n : Nat)
    (hw : Policy.wf p = true) (hn : Policy.depth p ≤ n)
    (h : m4upDoc c n p.stag p.etag (doc120 p) = some d') :
    m4down d' = .ok (doc120 p) := by
  unfold m4upDoc at h
  have hr : fromMongoDoc n p.stag p.etag (doc120 p) = some p := by
    rw [fromMongoDoc, stripMongo_shape (doc120_shape p)]; exact C09.policy_roundtrip p hw _ n hn
  rw [hr] at h
  obtain ⟨e1, e2, e3, f1, f2, f3, g1, g2, g3, g4, g5, g6⟩ := kne
  cases hm : mongoDoc c p with
  | none => simp [hm] at h
  | some nd =>
    simp only [hm, Option.map_some, Option.some.injEq] at h
    subst h
    rcases mongoDoc_shape' c p nd hm with ⟨_, hs1⟩ | ⟨_, a, s, r, hs1⟩
    · have hs' := update_shape (doc120_shape p) hs1
      rw [m4down_shape hs']
      simp [doc120, setAll, setKey, List.foldl, notCompiled, compiled_eq, e1, e2, e3]
    · have hs' := update_shape (doc120_shape p) hs1
      rw [m4down_shape hs']
      simp [doc120, freshExtra, setAll, setKey, List.foldl, notCompiled, compiled_eq, e1, e2, e3, f1, f2, f3, g1, g2, g3, g4, g5, g6]

/-- a string-based policy gets its three compiled arrays -/
theorem m4up_adds_compiled (c : Compile) (p : Policy) (d' : Doc) (n : Nat)
    (hw : Policy.wf p = true) (hn : Policy.depth p ≤ n) (hsb : strBased p = true)
    (h : m4upDoc c n p.stag p.etag (doc120 p) = some d') :
    (lookup kActionsC d').isSome = true ∧ (lookup kSubjectsC d').isSome = true ∧ (lookup kResourcesC d').isSome = true := by
  unfold m4upDoc at h
  have hr : fromMongoDoc n p.stag p.etag (doc120 p) = some p := by
    rw [fromMongoDoc, stripMongo_shape (doc120_shape p)]; exact C09.policy_roundtrip p hw _ n hn
  rw [hr] at h
  obtain ⟨e1, e2, e3, f1, f2, f3, g1, g2, g3, g4, g5, g6⟩ := kne
  cases hm : mongoDoc c p with
  | none => simp [hm] at h
  | some nd =>
    simp only [hm, Option.map_some, Option.some.injEq] at h
    subst h
    rcases mongoDoc_shape' c p nd hm with ⟨hf, _⟩ | ⟨_, a, s, r, hs1⟩
    · rw [hsb] at hf; cases hf
    · have hs' := update_shape (doc120_shape p) hs1
      have hl : ∀ k ∈ addedKeys, lookup k (setAll nd (doc120 p)) = lookup k (setAll (freshExtra p a s r) [(kId, p.uid)]) := by
        intro k hk
        rw [hs'.eq]
        have : ∀ (pre : Doc), (∀ kv ∈ pre, kv.1 ≠ k) → ∀ rest, lookup k (pre ++ rest) = lookup k rest := by
          intro pre hpre rest
          induction pre with
          | nil => rfl
          | cons y ys ih =>
            obtain ⟨k', v'⟩ := y
            have hne : ¬ k = k' := fun e => hpre (k', v') (List.mem_cons_self ..) e.symm
            simp only [List.cons_append, lookup, hne, ↓reduceIte]
            exact ih (fun kv hkv => hpre kv (List.mem_cons_of_mem _ hkv))
        exact this _ (encPolicy_key_ne_added p _ k hk) _
      rw [hl kActionsC (by simp [addedKeys]), hl kSubjectsC (by simp [addedKeys]), hl kResourcesC (by simp [addedKeys])]
      simp [freshExtra, setAll, setKey, List.foldl, lookup, e1, e2, e3, f1, f2, f3, g1, g2, g3, g4, g5, g6]

/-- a stored document the reader cannot rebuild, or an element that does not compile: the step raises -/
theorem m4up_failure (c : Compile) (n : Nat) (stag etag : Char) (d : Doc)
    (h : fromMongoDoc n stag etag d = Option.none ∨ ∃ p, fromMongoDoc n stag etag d = some p ∧ mongoDoc c p = Option.none) :
    m4upDoc c n stag etag d = Option.none := by
  unfold m4upDoc
  rcases h with h | ⟨p, hp, hm⟩
  · simp [h]
  · simp [hp, hm]

/-! ### Non-vacuity -/
example :
    let comp : Compile := fun _ _ s => some ('^' :: s ++ ['$'])
    let p : Policy := { uid := .str "u".toList, effect := .str Generated.allowConst, description := .none,
                        subjects := [.str "<a.*>".toList], resources := [.str "r".toList], actions := [.str "get".toList],
                        context := [], stag := '<', etag := '>' }
    ((m4upDoc comp 3 '<' '>' (doc120 p)).map (fun d => d.length) == some 12) = true := by
  decide +kernel

end Vakt.C19
