import Model.Prefilter
import Proofs.Guard
import Proofs.Rules
import Props.C06
/-!
# C07 — decisions do not depend on the storage backend
-/
namespace Vakt.C07
open Vakt PyVal Vakt.Prefilter

/-- dropping policies that neither match nor raise changes nothing; extra candidates never matter -/
theorem filterM_superset (m : Policy → R) (keep : Policy → Bool) (ps : List Policy)
    (h : ∀ p ∈ ps, keep p = false → m p = .ok false) : filterM m (ps.filter keep) = filterM m ps := by
  induction ps with
  | nil => rfl
  | cons p rest ih =>
    have ih' := ih (fun x hx => h x (by simp [hx]))
    by_cases hk : keep p = true
    · simp only [List.filter_cons, hk, ↓reduceIte, filterM, ih']
    · have hk' : keep p = false := by simpa using hk
      have hm := h p (by simp) hk'
      simp only [List.filter_cons, hk', Bool.false_eq_true, ↓reduceIte, filterM, hm, ih']
      cases filterM m rest <;> rfl

/-- **superset theorem**: if every stored policy that the storage does not return neither matches
nor raises, the decision over the returned candidates equals the decision over the whole store -/
theorem superset_ok (m : Policy → R) (keep : Policy → Bool) (ps : List Policy)
    (h : ∀ p ∈ ps, keep p = false → m p = .ok false) : decide m (ps.filter keep) = decide m ps := by
  simp only [decide, isAllowed, decideAns, decideCore, filterM_superset m keep ps h]

/-- every policy is string-based or rule-based (C10: mixed definitions cannot exist) -/
def WellTyped (p : Policy) : Prop := isStringTyped p = true ∨ isRuleTyped p = true

theorem not_string_typed_fields (p : Policy) (hw : WellTyped p) (h : isStringTyped p = false) (f : Field) :
    ∀ e ∈ p.field f, e.isStr = false := by
  rcases hw with hs | hr
  · rw [hs] at h; cases h
  · simp only [isRuleTyped, Bool.and_eq_true, List.all_eq_true, Bool.not_eq_true'] at hr
    intro e he
    apply hr.2 e
    cases f <;> simp [Policy.field] at he <;> simp [he]

theorem string_typed_fields (p : Policy) (h : isStringTyped p = true) (f : Field) :
    ∀ e ∈ p.field f, e.isStr = true := by
  simp only [isStringTyped, List.all_eq_true] at h
  intro e he
  apply h e
  cases f <;> simp [Policy.field] at he <;> simp [he]

theorem not_rule_typed_string (p : Policy) (hw : WellTyped p) (h : isRuleTyped p = false) : isStringTyped p = true := by
  rcases hw with hs | hr
  · exact hs
  · rw [hr] at h; cases h

/-- a policy of the other type never matches and never raises (through C06) -/
theorem other_type_no_match (k : CheckerKind) (q : Inquiry) (p : Policy) (hw : WellTyped p) :
    (k ≠ .rules → isStringTyped p = false → guardMatch k q p = .ok false) ∧
    (k = .rules → isRuleTyped p = false → guardMatch k q p = .ok false) := by
  constructor
  · intro hk hs
    have := C06.rule_policy_never_string p .actions q.action (not_string_typed_fields p hw hs .actions)
    cases k with
    | rules => exact absurd rfl hk
    | regex => simp [guardMatch, matchP, fits, this.1, andThen]
    | exact => simp [guardMatch, matchP, fits, this.2.1, andThen]
    | fuzzy => simp [guardMatch, matchP, fits, this.2.2, andThen]
  · intro hk hr
    subst hk
    have hs := not_rule_typed_string p hw hr
    have := C06.string_policy_never_rules p .actions q.action (some q) (string_typed_fields p hs .actions)
    simp [guardMatch, matchP, fits, this, andThen]

theorem mem_strElems (es : List Elem) (e : List Char) : e ∈ strElems es ↔ Elem.str e ∈ es := by
  induction es with
  | nil => simp [strElems]
  | cons x rest ih =>
    cases x with
    | str s => simp [strElems] at ih ⊢; rw [ih]
    | rule r => simp [strElems] at ih ⊢; exact ih
    | attrs kvs => simp [strElems] at ih ⊢; exact ih

/-- the inner text of a tag-enclosed element, with the default tags -/
theorem inner_default (e w : List Char) (h : inner '<' '>' e = w) : e = w ∨ e = '<' :: (w ++ ['>']) := by
  cases e with
  | nil => left; simpa [inner] using h
  | cons c t =>
    simp only [inner] at h
    split at h
    · rename_i hc
      simp only [Bool.and_eq_true, beq_iff_eq] at hc
      right
      obtain ⟨rfl, hl⟩ := hc
      simp only [List.drop_succ_cons, List.drop_zero] at h
      cases t with
      | nil => simp at hl
      | cons d ds =>
        have hlast : (d :: ds).getLast? = some '>' := by simpa [List.getLast?_cons_cons] using hl
        have hne : (d :: ds) ≠ [] := by simp
        have hg : (d :: ds).getLast hne = '>' := by
          rw [List.getLast?_eq_some_getLast hne] at hlast
          exact Option.some.inj hlast
        have := List.dropLast_concat_getLast hne
        rw [hg, h] at this
        rw [← this]
    · left; exact h

/-- exact checker: a policy the SQL / Mongo query does not return does not match -/
theorem exact_query_sound (p : Policy) (f : Field) (w : List Char) (hd : defaultTags p)
    (h : exactField (p.field f) (.str w) = false) : exactFits p f (.str w) = .ok false := by
  obtain ⟨b, hb⟩ := (C06.string_total p f w).1
  cases b with
  | false => exact hb
  | true =>
    obtain ⟨e, he, hi⟩ := (C06.exact_iff p f w).1 hb
    rw [hd.1, hd.2] at hi
    simp only [exactField, List.any_eq_false, Bool.or_eq_true, beq_iff_eq, not_or] at h
    have := h e ((mem_strElems _ e).2 he)
    rcases inner_default e w hi with e1 | e2
    · exact absurd e1 this.1
    · exact absurd e2 this.2

theorem inner_infix (s t : Char) (e : List Char) : inner s t e <:+: e := by
  cases e with
  | nil => simp [inner]
  | cons c r =>
    simp only [inner]
    split
    · exact List.IsInfix.trans (List.dropLast_prefix _).isInfix (List.drop_suffix 1 _).isInfix
    · exact List.infix_refl _

/-- fuzzy checker: a policy whose raw elements do not contain the value does not match -/
theorem fuzzy_query_sound (p : Policy) (f : Field) (w : List Char)
    (h : fuzzyField (p.field f) (.str w) = false) : fuzzyFits p f (.str w) = .ok false := by
  obtain ⟨b, hb⟩ := (C06.string_total p f w).2
  cases b with
  | false => exact hb
  | true =>
    obtain ⟨e, he, hi⟩ := (C06.fuzzy_iff p f w).1 hb
    simp only [fuzzyField, List.any_eq_false] at h
    have := h e ((mem_strElems _ e).2 he)
    have hinf : w <:+: e := List.IsInfix.trans hi (inner_infix _ _ e)
    rw [(PyVal.isInfix_iff w e).2 hinf] at this
    exact absurd rfl this

/-- **per backend and checker**: a stored policy that `find_for_inquiry` does not return neither
matches the inquiry nor raises (string-valued inquiry fields for the two string checkers;
policies as read back, i.e. with the default tags) -/
theorem candidate_sound (b : Backend) (k : CheckerKind) (p : Policy) (q : Inquiry) (hw : WellTyped p)
    (hd : defaultTags p) (wa ws wr : List Char)
    (hq : (k = .exact ∨ k = .fuzzy) → q.action = .str wa ∧ q.subject = .str ws ∧ q.resource = .str wr)
    (h : candidate b k p q = false) : guardMatch k q p = .ok false := by
  have ot := other_type_no_match k q p hw
  cases b with
  | all => simp [candidate] at h
  | typeOnly =>
    cases k with
    | rules => exact ot.2 rfl (by simpa [candidate] using h)
    | regex => exact ot.1 (by simp) (by simpa [candidate] using h)
    | exact => exact ot.1 (by simp) (by simpa [candidate] using h)
    | fuzzy => exact ot.1 (by simp) (by simpa [candidate] using h)
  | query =>
    cases k with
    | rules => exact ot.2 rfl (by simpa [candidate] using h)
    | regex => exact ot.1 (by simp) (by simpa [candidate] using h)
    | exact =>
      obtain ⟨ha, hs, hr⟩ := hq (Or.inl rfl)
      by_cases hst : isStringTyped p = true
      · simp only [candidate, hst, Bool.true_and, ha, hs, hr, Bool.and_eq_false_iff] at h
        have ea := (C06.string_total p .actions wa).1
        have es := (C06.string_total p .subjects ws).1
        have er := (C06.string_total p .resources wr).1
        obtain ⟨ba, hba⟩ := ea; obtain ⟨bs, hbs⟩ := es; obtain ⟨br, hbr⟩ := er
        simp only [guardMatch, matchP, fits, ha, hs, hr, hba, hbs, hbr]
        rcases h with (h | h) | h
        · have := exact_query_sound p .actions wa hd h; rw [hba] at this; cases this; simp [andThen]
        · have := exact_query_sound p .resources wr hd h; rw [hbr] at this; cases this
          cases ba <;> cases bs <;> simp [andThen]
        · have := exact_query_sound p .subjects ws hd h; rw [hbs] at this; cases this
          cases ba <;> simp [andThen]
      · exact ot.1 (by simp) (by simpa using hst)
    | fuzzy =>
      obtain ⟨ha, hs, hr⟩ := hq (Or.inr rfl)
      by_cases hst : isStringTyped p = true
      · simp only [candidate, hst, Bool.true_and, ha, hs, hr, Bool.and_eq_false_iff] at h
        obtain ⟨ba, hba⟩ := (C06.string_total p .actions wa).2
        obtain ⟨bs, hbs⟩ := (C06.string_total p .subjects ws).2
        obtain ⟨br, hbr⟩ := (C06.string_total p .resources wr).2
        simp only [guardMatch, matchP, fits, ha, hs, hr, hba, hbs, hbr]
        rcases h with (h | h) | h
        · have := fuzzy_query_sound p .actions wa h; rw [hba] at this; cases this; simp [andThen]
        · have := fuzzy_query_sound p .resources wr h; rw [hbr] at this; cases this
          cases ba <;> cases bs <;> simp [andThen]
        · have := fuzzy_query_sound p .subjects ws h; rw [hbs] at this; cases this
          cases ba <;> simp [andThen]
      · exact ot.1 (by simp) (by simpa using hst)

/-- **the decision over any backend equals the decision over the in-memory store** -/
theorem backend_decision_eq (b : Backend) (k : CheckerKind) (ps : List Policy) (q : Inquiry)
    (hw : ∀ p ∈ ps, WellTyped p) (hd : ∀ p ∈ ps, defaultTags p) (wa ws wr : List Char)
    (hq : (k = .exact ∨ k = .fuzzy) → q.action = .str wa ∧ q.subject = .str ws ∧ q.resource = .str wr) :
    guardDecide k (find b k ps q) q = guardDecide k ps q := by
  unfold guardDecide find
  apply superset_ok
  intro p hp hc
  exact candidate_sound b k p q (hw p hp) (hd p hp) wa ws wr hq hc

/-- the behavioural probes of /repo that feed the generated tables this property rests on could all be run
(a probe that fails leaves its table empty and is named in `Generated.probeFailures`) -/
theorem probes_ok : ¬ ("sqlRegexDialects" ∈ Generated.probeFailures) ∧ ¬ ("mongo" ∈ Generated.probeFailures) := by decide

end Vakt.C07
