import Model.Guard
import Proofs.Rules
import Proofs.Guard
/-!
# C06 — string checkers are exact / substring; checker and policy types never cross
-/
namespace Vakt.C06
open Vakt PyVal

/-- an element wholly enclosed in the tags is compared by its inner text: exactly one pair is
stripped, and only when both ends are tags -/
theorem inner_spec (stag etag : Char) :
    (∀ m : List Char, inner stag etag (stag :: (m ++ [etag])) = m) ∧
    inner stag etag [] = [] ∧
    (∀ s : List Char, (s.head? ≠ some stag ∨ s.getLast? ≠ some etag) → inner stag etag s = s) := by
  refine ⟨?_, rfl, ?_⟩
  · intro m
    have h : (stag :: (m ++ [etag])).getLast? = some etag := by
      rw [← List.cons_append, List.getLast?_append]; simp
    simp [inner, h]
  · intro s h
    cases s with
    | nil => rfl
    | cons a t =>
      simp only [inner]
      split
      · rename_i hc
        simp only [Bool.and_eq_true, beq_iff_eq] at hc
        rcases h with h | h
        · simp [hc.1] at h
        · exact absurd hc.2 h
      · rfl

theorem exactLoop_iff (stag etag : Char) (v : List Char) (es : List Elem) :
    exactLoop stag etag (.str v) es = .ok true ↔ ∃ e, Elem.str e ∈ es ∧ inner stag etag e = v := by
  induction es with
  | nil => simp [exactLoop]
  | cons x rest ih =>
    cases x with
    | str e =>
      simp only [exactLoop, pyEq]
      by_cases h : (v == inner stag etag e) = true
      · simp only [h, ↓reduceIte, true_iff]
        exact ⟨e, by simp, (beq_iff_eq.1 h).symm⟩
      · simp only [h, Bool.false_eq_true, ↓reduceIte, ih, List.mem_cons, Elem.str.injEq]
        constructor
        · rintro ⟨e', he', hv⟩; exact ⟨e', Or.inr he', hv⟩
        · rintro ⟨e', he' | he', hv⟩
          · subst he'; exact absurd (beq_iff_eq.2 hv.symm) h
          · exact ⟨e', he', hv⟩
    | rule r => simp [exactLoop, ih]
    | attrs kvs => simp [exactLoop, ih]

/-- exact checker: the field matches iff one of its string elements (by inner text) equals the value -/
theorem exact_iff (p : Policy) (f : Field) (v : List Char) :
    exactFits p f (.str v) = .ok true ↔ ∃ e, Elem.str e ∈ p.field f ∧ inner p.stag p.etag e = v :=
  exactLoop_iff _ _ _ _

theorem fuzzyLoop_iff (stag etag : Char) (v : List Char) (es : List Elem) :
    fuzzyLoop stag etag (.str v) es = .ok true ↔ ∃ e, Elem.str e ∈ es ∧ v <:+: inner stag etag e := by
  induction es with
  | nil => simp [fuzzyLoop]
  | cons x rest ih =>
    cases x with
    | str e =>
      simp only [fuzzyLoop]
      by_cases h : isInfix v (inner stag etag e) = true
      · simp only [h, ↓reduceIte, true_iff]
        exact ⟨e, by simp, (PyVal.isInfix_iff _ _).1 h⟩
      · simp only [h, Bool.false_eq_true, ↓reduceIte, ih, List.mem_cons, Elem.str.injEq]
        constructor
        · rintro ⟨e', he', hv⟩; exact ⟨e', Or.inr he', hv⟩
        · rintro ⟨e', he' | he', hv⟩
          · subst he'; exact absurd ((PyVal.isInfix_iff _ _).2 hv) h
          · exact ⟨e', he', hv⟩
    | rule r => simp [fuzzyLoop, ih]
    | attrs kvs => simp [fuzzyLoop, ih]

/-- fuzzy checker: the field matches iff the value is a substring of one of its string elements -/
theorem fuzzy_iff (p : Policy) (f : Field) (v : List Char) :
    fuzzyFits p f (.str v) = .ok true ↔ ∃ e, Elem.str e ∈ p.field f ∧ v <:+: inner p.stag p.etag e :=
  fuzzyLoop_iff _ _ _ _

/-- both return a boolean without raising for every string element (the empty one included) and
string value -/
theorem string_total (p : Policy) (f : Field) (v : List Char) :
    (∃ b, exactFits p f (.str v) = .ok b) ∧ (∃ b, fuzzyFits p f (.str v) = .ok b) := by
  constructor
  · unfold exactFits
    induction p.field f with
    | nil => exact ⟨false, rfl⟩
    | cons x rest ih =>
      cases x with
      | str e => simp only [exactLoop]; split; exact ⟨true, rfl⟩; exact ih
      | rule r => simpa [exactLoop] using ih
      | attrs kvs => simpa [exactLoop] using ih
  · unfold fuzzyFits
    induction p.field f with
    | nil => exact ⟨false, rfl⟩
    | cons x rest ih =>
      cases x with
      | str e => simp only [fuzzyLoop]; split; exact ⟨true, rfl⟩; exact ih
      | rule r => simpa [fuzzyLoop] using ih
      | attrs kvs => simpa [fuzzyLoop] using ih

/-- a field without string elements never matches under the regex, exact or fuzzy checker,
whatever value is offered -/
theorem rule_policy_never_string (p : Policy) (f : Field) (w : PyVal)
    (h : ∀ e ∈ p.field f, e.isStr = false) :
    regexFits p f w = .ok false ∧ exactFits p f w = .ok false ∧ fuzzyFits p f w = .ok false := by
  unfold regexFits exactFits fuzzyFits
  generalize p.field f = es at h ⊢
  induction es with
  | nil => simp [regexLoop, exactLoop, fuzzyLoop]
  | cons x rest ih =>
    have hx := h x (by simp)
    have := ih (fun e he => h e (by simp [he]))
    cases x with
    | str e => simp [Elem.isStr] at hx
    | rule r => simpa [regexLoop, exactLoop, fuzzyLoop] using this
    | attrs kvs => simpa [regexLoop, exactLoop, fuzzyLoop] using this

/-- a field of string elements never matches under the rules checker -/
theorem string_policy_never_rules (p : Policy) (f : Field) (w : PyVal) (q : Option Inquiry)
    (h : ∀ e ∈ p.field f, e.isStr = true) : rulesFits p f w q = .ok false := by
  unfold rulesFits
  congr 1
  generalize p.field f = es at h ⊢
  induction es with
  | nil => rfl
  | cons x rest ih =>
    have hx := h x (by simp)
    cases x with
    | str e => simp [rulesLoop, rulesElem, ih (fun e he => h e (by simp [he]))]
    | rule r => simp [Elem.isStr] at hx
    | attrs kvs => simp [Elem.isStr] at hx

/-- at guard level: stores whose policies are all of the other type are denied -/
theorem cross_type_denied (k : CheckerKind) (q : Inquiry) (ps : List Policy) :
    (k ≠ .rules → (∀ p ∈ ps, ∀ e ∈ p.actions, e.isStr = false) → guardDecide k ps q = false) ∧
    (k = .rules → (∀ p ∈ ps, ∀ e ∈ p.actions, e.isStr = true) → guardDecide k ps q = false) := by
  constructor
  · intro hk h
    have hm : ∀ p ∈ ps, guardMatch k q p = .ok false := by
      intro p hp
      have := rule_policy_never_string p .actions q.action (h p hp)
      cases k with
      | rules => exact absurd rfl hk
      | regex => simp [guardMatch, matchP, fits, this.1, andThen]
      | exact => simp [guardMatch, matchP, fits, this.2.1, andThen]
      | fuzzy => simp [guardMatch, matchP, fits, this.2.2, andThen]
    cases hd : guardDecide k ps q with
    | false => rfl
    | true =>
      have hr : NoRaise (guardMatch k q) ps := fun p hp => ⟨false, hm p hp⟩
      obtain ⟨⟨p, hp, hmp⟩, _⟩ := (Vakt.decide_iff _ ps hr).1 hd
      rw [hm p hp] at hmp; cases hmp
  · intro hk h
    subst hk
    have hm : ∀ p ∈ ps, guardMatch .rules q p = .ok false := by
      intro p hp
      have := string_policy_never_rules p .actions q.action (some q) (h p hp)
      simp [guardMatch, matchP, fits, this, andThen]
    cases hd : guardDecide .rules ps q with
    | false => rfl
    | true =>
      have hr : NoRaise (guardMatch .rules q) ps := fun p hp => ⟨false, hm p hp⟩
      obtain ⟨⟨p, hp, hmp⟩, _⟩ := (Vakt.decide_iff _ ps hr).1 hd
      rw [hm p hp] at hmp; cases hmp

/-! ### Non-vacuity -/
example : exactFits { (default : Policy) with actions := [.str "".toList, .str "<get>".toList], stag := '<', etag := '>' }
    .actions (.str "get".toList) = .ok true := by decide
example : fuzzyFits { (default : Policy) with actions := [.str "<<get>>".toList], stag := '<', etag := '>' }
    .actions (.str "<get>".toList) = .ok true := by decide
example : exactFits { (default : Policy) with actions := [.str "<<get>>".toList], stag := '<', etag := '>' }
    .actions (.str "get".toList) = .ok false := by decide

end Vakt.C06
