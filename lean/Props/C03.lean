import Model.Checker
import Model.Cache
import Proofs.TagParser
import Proofs.Checker
import Proofs.Cache
import Proofs.TagIndex
/-!
# C03 — regex policy language: literal text, tagged segments, whole-string match

`TagParser.scan` is the observable content of `get_tag_indices` + the slicing loop of
`compile_regex`; `regexElem` is one iteration of `RegexChecker.fits`.
-/
namespace Vakt.C03
open Vakt TagParser

/-- the pieces re-assemble to the element: nothing is dropped, duplicated or reordered -/
theorem scan_render (s t : Char) (e : List Char) (ps : List Piece) (h : scan s t e = some ps) :
    render s t ps = e := by
  simpa [render] using scanAux_render s t e 0 [] [] ps h

/-- every decomposition according to the grammar is what the scanner finds -/
theorem scan_complete (s t : Char) (hst : s ≠ t) (ps : List Piece) (hd : Decomp s t ps) :
    scan s t (render s t ps) = some ps := by
  obtain ⟨l0, rest, hps, h⟩ := scanAux_complete s t hst ps hd []
  have := h [] (by intro c hc; simp at hc)
  simpa [scan, hps] using this

/-- grammar theorem: the element is split into `Lit (Seg Lit)*` — literals without delimiters,
segments with depth-balanced bodies — exactly when, and exactly as, the grammar says -/
theorem pieces_grammar (s t : Char) (hst : s ≠ t) (e : List Char) (ps : List Piece) :
    scan s t e = some ps ↔ Decomp s t ps ∧ render s t ps = e := by
  constructor
  · intro h
    obtain ⟨tail, hps, hd⟩ := (scanAux_decomp s t e).1 [] [] ps (by intro c hc; simp at hc) h
    simp only [List.nil_append] at hps
    subst hps
    exact ⟨hd, scan_render s t e _ h⟩
  · rintro ⟨hd, rfl⟩
    exact scan_complete s t hst ps hd

/-- the decomposition is unique (so the number of segments is determined by the element) -/
theorem decomp_unique (s t : Char) (hst : s ≠ t) (ps ps' : List Piece)
    (h : Decomp s t ps) (h' : Decomp s t ps') (he : render s t ps = render s t ps') : ps = ps' := by
  have h1 := scan_complete s t hst ps h
  have h2 := scan_complete s t hst ps' h'
  rw [he, h2] at h1
  exact (Option.some.inj h1).symm

/-- an element with unbalanced delimiters never matches: the scan of the field ends, fail-closed -/
theorem unbalanced_never (s t : Char) (e : List Char) (what : PyVal)
    (htag : tagged s t e = true) (h : scan s t e = none) :
    regexElem s t e what = .done (.ok false) := by
  simp [regexElem, htag, h]

/-- an element without delimiters matches by exact equality only -/
theorem untagged_eq (s t : Char) (e : List Char) (what : PyVal) (htag : tagged s t e = false) :
    (regexElem s t e what = .done (.ok true) ↔ what = .str e) ∧
    (regexElem s t e what = .done (.ok true) ∨ regexElem s t e what = .next) := by
  simp only [regexElem, htag, Bool.not_false, ↓reduceIte]
  constructor
  · split
    · rename_i h
      simp only [true_iff]
      cases what <;> simp_all [PyVal.pyEq, PyVal.asNum]
    · rename_i h
      simp only [reduceCtorEq, false_iff]
      intro hw; subst hw; simp [PyVal.pyEq] at h
  · split <;> simp

/-- a tagged element matches a string value iff the value splits, in order, into pieces that
equal the literals and are words of the segments' regular expressions — nothing left over at
either end -/
theorem elem_split (s t : Char) (e : List Char) (ps : List Piece) (r : Re) (rest : List Char) (w : List Char)
    (htag : tagged s t e = true) (hscan : scan s t e = some ps) (hre : piecesRe ps = .ok r rest) :
    regexElem s t e (.str w) = .done (.ok true) ↔ PiecesMatch ps w := by
  simp only [regexElem, htag, Bool.not_true, Bool.false_eq_true, ↓reduceIte, hscan, hre]
  rw [← piecesRe_lang ps r rest hre w, ← Re.accepts_iff]
  split <;> simp_all

/-- compile cache: with any capacity, a lookup answers what an uncached compile would, and keeps
the cache honest -/
theorem compile_cache_transparent {κ ν : Type} [DecidableEq κ] (compile : κ → ν) (keep : ν → Bool)
    (c : Lru κ ν) (k : κ) (h : Lru.Inv compile c) :
    (c.call compile keep k).1 = compile k ∧ Lru.Inv compile (c.call compile keep k).2.2 :=
  Lru.call_transparent compile keep c k h

/-- … hence over any lookup history from an empty cache of any capacity (none, 0, n) -/
theorem cache_history_independent {κ ν : Type} [DecidableEq κ] (compile : κ → ν) (keep : ν → Bool)
    (cap : Option Nat) (ks : List κ) :
    (Lru.run compile keep (Lru.empty cap) ks).1 = ks.map compile :=
  (Lru.run_transparent compile keep ks _ (Lru.inv_empty compile cap)).1

/-! ### Non-vacuity and the trailing-newline clause -/
example : scan '<' '>' "a<b+>c<d+>e".toList =
    some [.lit ['a'], .seg ['b', '+'], .lit ['c'], .seg ['d', '+'], .lit ['e']] := by decide
example : scan '<' '>' "a<b".toList = none ∧ scan '<' '>' "a>b<c".toList = none := by decide
example : regexElem '<' '>' "a<b+>c<d+>e".toList (.str "abbcdde".toList) = .done (.ok true) := by decide +kernel
example : regexElem '<' '>' "<abc>".toList (.str "abc\n".toList) = .next := by decide +kernel
example : regexElem '<' '>' "a.c".toList (.str "abc".toList) = .next := by decide +kernel

/-- the implementation's two-stage form — `get_tag_indices` walking the phrase with a position
counter, then the slicing loop of `compile_regex` cutting `phrase[end:idx]` / `phrase[idx+1:end-1]`
— computes exactly the scanner's decomposition and fails exactly when it does; every theorem above
about `scan` is therefore a theorem about the index form -/
theorem index_form_eq_scanner (s t : Char) (e : List Char) : scanByIndex s t e = scan s t e :=
  scanByIndex_eq_scan s t e

example : tagIndices '<' '>' "ab<c<d>>e<>".toList = some [(2, 8), (9, 11)] ∧
    scanByIndex '<' '>' "ab<c<d>>e<>".toList =
      some [Piece.lit "ab".toList, Piece.seg "c<d>".toList, Piece.lit "e".toList, Piece.seg [], Piece.lit []] := by
  decide +kernel

end Vakt.C03
