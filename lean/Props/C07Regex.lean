import Model.MongoRegex
import Props.C07
import Props.C03
/-!
# C07 (continued) — the MongoDB ≥ 4.2 prefilter of the regex checker

Over the model of `__regex_query_on_conditions` (`Model/MongoRegex.lean`) and of the stored compiled texts
(`Model/StorageCodec.lean`), for string inquiry values:

* `regex_candidates_complete` — when the aggregation does not fail, every stored policy that the regex checker
  matches on actions, subjects and resources is among the candidates;
* `regex_dropped_no_match` / `mongo42_regex_decision_eq` — a dropped policy neither matches nor raises, hence the
  guard's decision over the candidates equals its decision over the whole collection;
* `invalid_literal_breaks` — the recorded finding `mongo42-invalid-literal-regex` as a theorem of the model: a
  stored literal that is not a valid regular expression makes the aggregation fail although a policy matches.

Assumption (`SearchSound`): the server's `$regexMatch` with the anchored pattern text finds every value the
model's whole-string match accepts (PCRE's `^…$` search against Python's `fullmatch` on the modelled subset).
-/
namespace Vakt.C07
open Vakt PyVal Prefilter StorageCodec MongoRegex RuleCodec TagParser

/-- a balanced element that contains a delimiter contains both -/
theorem scan_tagged_hasBoth (s t : Char) (e : List Char) (ps : List Piece)
    (hs : scan s t e = some ps) (ht : tagged s t e = true) : e.contains s = true ∧ e.contains t = true := by
  obtain ⟨tail, hps, hd⟩ := (scanAux_decomp s t e).1 [] [] ps (by intro c hc; simp at hc) hs
  simp only [List.nil_append] at hps
  subst hps
  have hr := C03.scan_render s t e _ hs
  cases hd with
  | last l hl =>
    simp only [render, List.append_nil] at hr
    subst hr
    simp only [tagged, Bool.or_eq_true, List.contains_iff_mem] at ht
    rcases ht with h | h
    · exact absurd rfl (hl s h).1
    · exact absurd rfl (hl t h).2
  | cons l x rest hl hb hrest =>
    simp only [render] at hr
    subst hr
    constructor <;> simp

theorem mapOpt_cons_some {α β : Type} (f : α → Option β) (x : α) (xs : List α) (ys : List β)
    (h : mapOpt f (x :: xs) = some ys) : ∃ y ys', f x = some y ∧ mapOpt f xs = some ys' ∧ ys = y :: ys' := by
  simp only [mapOpt] at h
  split at h
  · rename_i y ys' hy hys
    cases h
    exact ⟨y, ys', hy, hys, rfl⟩
  · cases h

/-- one element: what the checker does with it, against the stored entry -/
theorem elem_entry (search : Search) (hss : SearchSound search) (p : Policy) (e w t : List Char)
    (ht : entryText modelCompile p (.str e) = some t) :
    (regexElem p.stag p.etag e (.str w) = .done (.ok true) → entryCond search w t = some true) ∧
    (regexElem p.stag p.etag e (.str w) = .done (.ok true) ∨ regexElem p.stag p.etag e (.str w) = .done (.ok false) ∨
     regexElem p.stag p.etag e (.str w) = .next) := by
  simp only [entryText] at ht
  by_cases htag : tagged p.stag p.etag e = true
  · cases hsc : scan p.stag p.etag e with
    | none =>
      simp [regexElem, htag, hsc]
    | some ps =>
      obtain ⟨h1, h2⟩ := scan_tagged_hasBoth _ _ e ps hsc htag
      have hh : hasTags p e = true := by simp only [hasTags, h1, h2, Bool.and_self]
      simp only [hh, ↓reduceIte, modelCompile, compileText, hsc] at ht
      cases hre : piecesRe ps with
      | ok r rest =>
        simp only [hre, Option.some.injEq] at ht
        subst ht
        simp only [regexElem, htag, Bool.not_true, Bool.false_eq_true, ↓reduceIte, hsc, hre]
        by_cases hacc : r.accepts w = true
        · simp only [hacc, ↓reduceIte, true_or, and_true]
          intro _
          simp only [entryCond]
          split
          · rfl
          · exact hss ps r rest w hre hacc
        · simp [hacc]
      | invalid => simp [hre] at ht
      | unsupported => simp [hre] at ht
  · have htag' : tagged p.stag p.etag e = false := by simpa using htag
    have hh : hasTags p e = false := by
      simp only [tagged, Bool.or_eq_false_iff] at htag'
      simp only [hasTags, htag'.1, Bool.false_and]
    simp only [hh, Bool.false_eq_true, ↓reduceIte, Option.some.injEq] at ht
    subst ht
    simp only [regexElem, htag', Bool.not_false, ↓reduceIte]
    by_cases heq : pyEq (.str e) (.str w) = true
    · have : e = w := by simpa [pyEq] using heq
      subst this
      simp [heq, entryCond]
    · simp [heq]

/-- a field: if the checker matches, the `$anyElementTrue` over the stored array is true (when it does not fail);
and the checker never raises on a string value -/
theorem field_entry (search : Search) (hss : SearchSound search) (p : Policy) (w : List Char) :
    ∀ (es : List Elem) (texts : List (List Char)), mapOpt (entryText modelCompile p) es = some texts →
      (regexLoop p.stag p.etag (.str w) es = .ok true →
        ∀ bs, mapOpt (entryCond search w) texts = some bs → bs.any id = true) ∧
      (regexLoop p.stag p.etag (.str w) es = .ok true ∨ regexLoop p.stag p.etag (.str w) es = .ok false)
  | [], texts, h => by
    simp only [mapOpt, Option.some.injEq] at h
    subst h
    simp [regexLoop]
  | .str e :: rest, texts, h => by
    obtain ⟨t, ts, ht, hts, rfl⟩ := mapOpt_cons_some _ _ _ _ h
    obtain ⟨ih1, ih2⟩ := field_entry search hss p w rest ts hts
    obtain ⟨he1, he2⟩ := elem_entry search hss p e w t ht
    simp only [regexLoop]
    rcases he2 with hd | hd | hd
    · simp only [hd, true_or, and_true, forall_const]
      intro bs hbs
      obtain ⟨b, bs', hb, _, rfl⟩ := mapOpt_cons_some _ _ _ _ hbs
      rw [he1 hd] at hb
      cases hb
      simp
    · simp [hd]
    · simp only [hd]
      refine ⟨?_, ih2⟩
      intro hl bs hbs
      obtain ⟨b, bs', _, hbs', rfl⟩ := mapOpt_cons_some _ _ _ _ hbs
      have := ih1 hl bs' hbs'
      simp [this]
  | .rule r :: rest, texts, h => by
    simp [mapOpt, entryText] at h
  | .attrs kvs :: rest, texts, h => by
    simp [mapOpt, entryText] at h

theorem fieldCond_of_fits (search : Search) (hss : SearchSound search) (p : Policy) (f : Field) (w : List Char)
    (texts : List (List Char)) (ht : mapOpt (entryText modelCompile p) (p.field f) = some texts)
    (hf : regexFits p f (.str w) = .ok true) (b : Bool) (hc : fieldCond search w texts = some b) : b = true := by
  simp only [fieldCond] at hc
  cases hm : mapOpt (entryCond search w) texts with
  | none => simp [hm] at hc
  | some bs =>
    simp only [hm, Option.map_some, Option.some.injEq] at hc
    rw [← hc]
    exact (field_entry search hss p w _ texts ht).1 hf bs hm

theorem fits_total (search : Search) (hss : SearchSound search) (p : Policy) (f : Field) (w : List Char)
    (texts : List (List Char)) (ht : mapOpt (entryText modelCompile p) (p.field f) = some texts) :
    regexFits p f (.str w) = .ok true ∨ regexFits p f (.str w) = .ok false :=
  (field_entry search hss p w _ texts ht).2

/-- **completeness of the candidates**: a stored string-based policy the regex checker matches on its three fields
satisfies the `$expr`, whenever the expression does not fail -/
theorem regex_candidates_complete (search : Search) (hss : SearchSound search) (p : Policy) (a s r : List Char)
    (hst : isStringTyped p = true)
    (ha : regexFits p .actions (.str a) = .ok true) (hs : regexFits p .subjects (.str s) = .ok true)
    (hr : regexFits p .resources (.str r) = .ok true)
    (b : Bool) (hd : docCond search modelCompile p a s r = some b) : b = true := by
  simp only [docCond, hst, Bool.not_true, Bool.false_eq_true, ↓reduceIte] at hd
  split at hd
  · rename_i ca cs cr hca hcs hcr
    cases h1 : fieldCond search a ca with
    | none => simp [andO, h1] at hd
    | some b1 =>
      have e1 := fieldCond_of_fits search hss p .actions a ca hca ha b1 h1
      subst e1
      simp only [andO, h1] at hd
      cases h2 : fieldCond search s cs with
      | none => simp [h2] at hd
      | some b2 =>
        have e2 := fieldCond_of_fits search hss p .subjects s cs hcs hs b2 h2
        subst e2
        simp only [h2] at hd
        exact fieldCond_of_fits search hss p .resources r cr hcr hr b hd
  · cases hd

/-- a stored policy the aggregation drops neither matches nor raises -/
theorem regex_dropped_no_match (search : Search) (hss : SearchSound search) (p : Policy) (q : Inquiry)
    (a s r : List Char) (hq : q.action = .str a ∧ q.subject = .str s ∧ q.resource = .str r)
    (hw : WellTyped p) (hstor : isStringTyped p = true → Storable modelCompile p)
    (hd : docCond search modelCompile p a s r = some false) : guardMatch .regex q p = .ok false := by
  by_cases hst : isStringTyped p = true
  · obtain ⟨sa, ss, sr⟩ := hstor hst
    obtain ⟨ca, hca⟩ := Option.isSome_iff_exists.mp sa
    obtain ⟨cs, hcs⟩ := Option.isSome_iff_exists.mp ss
    obtain ⟨cr, hcr⟩ := Option.isSome_iff_exists.mp sr
    have ta := fits_total search hss p .actions a ca hca
    have ts := fits_total search hss p .subjects s cs hcs
    have tr := fits_total search hss p .resources r cr hcr
    simp only [guardMatch, matchP, fits, hq.1, hq.2.1, hq.2.2]
    rcases ta with ha | ha
    · rcases ts with hs | hs
      · rcases tr with hr | hr
        · have := regex_candidates_complete search hss p a s r hst ha hs hr false hd
          cases this
        · simp [ha, hs, hr, andThen]
      · simp [ha, hs, andThen]
    · simp [ha, andThen]
  · have hst' : isStringTyped p = false := by simpa using hst
    exact (other_type_no_match .regex q p hw).1 (by decide) hst'

theorem find_eq_filter (search : Search) (c : Compile) (a s r : List Char) :
    ∀ (ps cands : List Policy), MongoRegex.find search c a s r ps = some cands →
      cands = ps.filter (fun p => docCond search c p a s r == some true) ∧
      ∀ p ∈ ps, docCond search c p a s r = some true ∨ docCond search c p a s r = some false
  | [], cands, h => by simp only [MongoRegex.find, Option.some.injEq] at h; subst h; simp
  | p :: ps, cands, h => by
    simp only [MongoRegex.find] at h
    split at h
    · rename_i rest hd hf
      cases h
      obtain ⟨e, hall⟩ := find_eq_filter search c a s r ps rest hf
      refine ⟨by simp [List.filter, hd, e], ?_⟩
      intro x hx
      rcases List.mem_cons.mp hx with rfl | hx
      · exact Or.inl hd
      · exact hall x hx
    · rename_i rest hd hf
      cases h
      obtain ⟨e, hall⟩ := find_eq_filter search c a s r ps cands hf
      refine ⟨by simp [List.filter, hd, e], ?_⟩
      intro x hx
      rcases List.mem_cons.mp hx with rfl | hx
      · exact Or.inr hd
      · exact hall x hx
    · cases h

/-- **decisions do not depend on the prefilter**: when the aggregation succeeds, the guard's decision over the
candidates equals its decision over the whole collection -/
theorem mongo42_regex_decision_eq (search : Search) (hss : SearchSound search) (ps cands : List Policy) (q : Inquiry)
    (a s r : List Char) (hq : q.action = .str a ∧ q.subject = .str s ∧ q.resource = .str r)
    (hw : ∀ p ∈ ps, WellTyped p) (hstor : ∀ p ∈ ps, isStringTyped p = true → Storable modelCompile p)
    (hf : MongoRegex.find search modelCompile a s r ps = some cands) :
    decide (guardMatch .regex q) cands = decide (guardMatch .regex q) ps := by
  obtain ⟨e, hall⟩ := find_eq_filter search modelCompile a s r ps cands hf
  rw [e]
  apply superset_ok
  intro p hp hk
  have hd : docCond search modelCompile p a s r = some false := by
    rcases hall p hp with h | h
    · simp [h] at hk
    · exact h
  exact regex_dropped_no_match search hss p q a s r hq (hw p hp) (hstor p hp) hd

/-- the recorded finding `mongo42-invalid-literal-regex`, as a theorem of the model: with a server that rejects
`a(b` as a regular expression, one stored literal `a(b` makes the aggregation fail although another stored policy
matches the inquiry -/
theorem invalid_literal_breaks :
    let search : Search := fun rx v => if rx = "a(b".toList then Option.none else some (rx = '^' :: v ++ ['$'])
    let mk : List Char → List Char → Policy := fun uid subj =>
      { uid := .str uid, effect := .str Generated.allowConst, description := .none, subjects := [.str subj],
        resources := [.str "r".toList], actions := [.str "get".toList], context := [], stag := '<', etag := '>' }
    let q : Inquiry := { resource := .str "r".toList, action := .str "get".toList, subject := .str "max".toList, context := .dict [] }
    guardDecide .regex [mk "1".toList "max".toList, mk "2".toList "a(b".toList] q = true ∧
    MongoRegex.find search modelCompile "get".toList "max".toList "r".toList [mk "1".toList "max".toList, mk "2".toList "a(b".toList] = Option.none := by
  decide +kernel

/-! ### Non-vacuity: a tagged element matched through the search -/
example :
    let search : Search := fun rx v => some (rx = "^(m.x)$".toList && v = "max".toList)
    let p : Policy := { uid := .str "1".toList, effect := .str Generated.allowConst, description := .none,
                        subjects := [.str "<m.x>".toList], resources := [.str "r".toList], actions := [.str "get".toList],
                        context := [], stag := '<', etag := '>' }
    regexFits p .subjects (.str "max".toList) = .ok true ∧
    docCond search modelCompile p "get".toList "max".toList "r".toList = some true := by
  decide +kernel

end Vakt.C07
