import Model.PolicyObj
/-!
# C10 — policy type always reflects its elements; invalid definitions are rejected
-/
namespace Vakt.C10
open Vakt.PolicyObj

/-- the reported type is the type implied by the current elements -/
def TypeInv (o : PObj) : Prop := calcType o.subjects o.resources o.actions = some o.typ

/-- only storable kinds are ever stored in a definition field -/
def KindsInv (o : PObj) : Prop := ∀ k ∈ o.subjects ++ o.resources ++ o.actions, k ≠ EKind.other

theorem empty_inv : TypeInv empty ∧ KindsInv empty := by
  constructor
  · simp [TypeInv, empty, calcType]
  · intro k hk; simp [empty] at hk

/-- every accepted assignment re-establishes the invariant (whatever attribute it targets, `type` included) -/
theorem setattr_inv (o o' : PObj) (name : String) (vid : Nat) (fv : FVal) (isDict : Bool)
    (h : setattr o name vid fv isDict = .ok o') : TypeInv o' := by
  unfold setattr at h
  cases hc : checkField name fv isDict with
  | some e => simp [hc] at h
  | none =>
    simp only [hc] at h
    split at h
    · cases h
    · rename_i t ht
      simp only [Except.ok.injEq] at h
      subst h
      exact ht

/-- a rejected assignment leaves the policy exactly as it was (over histories: `run` skips it) -/
theorem setattr_reject_unchanged (o : PObj) (a : Assign) (rest : List Assign) (e : Err)
    (h : setattr o a.name a.vid a.fv a.isDict = .error e) : run o (a :: rest) = run o rest := by
  simp [run, h]

/-- the type cannot be set directly: assigning `type` stores nothing and recomputes -/
theorem set_type_ignored (o o' : PObj) (vid : Nat) (fv : FVal) (isDict : Bool) (hi : TypeInv o)
    (h : setattr o "type" vid fv isDict = .ok o') : o' = o := by
  unfold setattr at h
  have hc : checkField "type" fv isDict = none := by
    unfold checkField
    have : isDefField "type" = false := by decide
    simp [this]
  have e2 : ("type" == "subjects") = false := by decide
  have e3 : ("type" == "resources") = false := by decide
  have e4 : ("type" == "actions") = false := by decide
  simp only [hc, e2, e3, e4, Bool.false_eq_true, ↓reduceIte] at h
  unfold TypeInv at hi
  rw [hi] at h
  simp only [beq_self_eq_true, ↓reduceIte, Except.ok.injEq] at h
  rw [← h]

theorem typeField_not_def : isDefField "type" = false := by decide

/-- mixed elements are rejected: if after the assignment the three fields hold both a string and
a rule (or dict) element, the assignment raises -/
theorem mixed_rejected (s r a : List EKind) (h1 : EKind.str ∈ s ++ r ++ a) (h2 : EKind.rule ∈ s ++ r ++ a) :
    calcType s r a = none := by
  unfold calcType
  have n1 : (s ++ r ++ a).all (· == EKind.str) = false := by
    rw [List.all_eq_false]; exact ⟨EKind.rule, h2, by decide⟩
  have n2 : (s ++ r ++ a).all (· == EKind.rule) = false := by
    rw [List.all_eq_false]; exact ⟨EKind.str, h1, by decide⟩
  simp only [n1, n2, Bool.false_eq_true, ↓reduceIte]

/-- ill-typed elements, non-iterables and non-dictionary contexts are rejected -/
theorem illtyped_rejected (o : PObj) (name : String) (vid : Nat) (ks : List EKind) (isDict : Bool)
    (hd : isDefField name = true) (hk : EKind.other ∈ ks) :
    setattr o name vid (.seq ks) isDict = .error .creation ∧
    setattr o name vid .scalar isDict = .error .typeError ∧
    setattr o name vid (.iter ks) isDict = .error .creation := by
  have : ks.any (· == EKind.other) = true := List.any_eq_true.2 ⟨_, hk, by decide⟩
  refine ⟨?_, ?_, ?_⟩
  · simp [setattr, checkField, hd, this]
  · simp [setattr, checkField, hd]
  · simp [setattr, checkField, hd, this]

/-- a one-shot iterator that passes the element check is stored exhausted: the policy then reports the type of a
policy without elements in that field -/
theorem iterator_counts_as_empty (o : PObj) (name : String) (vid : Nat) (ks : List EKind) (isDict : Bool)
    (hk : ks.any (· == EKind.other) = false) :
    setattr o name vid (.iter ks) isDict = setattr o name vid (.seq []) isDict := by
  unfold setattr checkField
  by_cases hd : isDefField name = true <;> simp [hd, hk, kindsOf]

theorem context_nondict_rejected (o : PObj) (vid : Nat) (fv : FVal) :
    setattr o "context" vid fv false = .error .creation := by
  have : isDefField "context" = false := by decide
  simp [setattr, checkField, this]


/-- string-based when all elements are strings or there are none; rule-based when all are rules or dicts -/
theorem type_meaning (s r a : List EKind) :
    (calcType s r a = some typeString ↔ ∀ k ∈ s ++ r ++ a, k = EKind.str) ∧
    ((∃ k, k ∈ s ++ r ++ a) → (calcType s r a = some typeRule ↔ ∀ k ∈ s ++ r ++ a, k = EKind.rule)) := by
  unfold calcType
  have hne : typeString ≠ typeRule := by decide
  constructor
  · constructor
    · intro h
      by_cases hs : (s ++ r ++ a).all (· == EKind.str) = true
      · intro k hk; simpa using List.all_eq_true.1 hs k hk
      · simp only [hs, Bool.false_eq_true, ↓reduceIte] at h
        split at h
        · simp only [Option.some.injEq] at h; exact absurd h.symm hne
        · cases h
    · intro h
      have : (s ++ r ++ a).all (· == EKind.str) = true := List.all_eq_true.2 (fun k hk => by simp [h k hk])
      simp only [this, ↓reduceIte]
  · rintro ⟨k0, hk0⟩
    constructor
    · intro h
      by_cases hs : (s ++ r ++ a).all (· == EKind.str) = true
      · simp only [hs, ↓reduceIte, Option.some.injEq] at h; exact absurd h hne
      · simp only [hs, Bool.false_eq_true, ↓reduceIte] at h
        split at h
        · rename_i hr; intro k hk; simpa using List.all_eq_true.1 hr k hk
        · cases h
    · intro h
      have hs : (s ++ r ++ a).all (· == EKind.str) = false := by
        rw [List.all_eq_false]; exact ⟨k0, hk0, by rw [h k0 hk0]; decide⟩
      have hr : (s ++ r ++ a).all (· == EKind.rule) = true := List.all_eq_true.2 (fun k hk => by simp [h k hk])
      simp only [hs, hr, Bool.false_eq_true, ↓reduceIte]

/-- over any history of assignments (valid, invalid, direct `type` assignments) the invariant holds -/
theorem history_inv (as : List Assign) : ∀ o : PObj, TypeInv o → TypeInv (run o as) := by
  induction as with
  | nil => intro o h; exact h
  | cons a rest ih =>
    intro o h
    simp only [run]
    cases hs : setattr o a.name a.vid a.fv a.isDict with
    | ok o' => exact ih o' (setattr_inv o o' _ _ _ _ hs)
    | error e => exact ih o h

/-- the constructor either fails or returns an object satisfying the invariant -/
theorem ctor_inv (as : List Assign) : ∀ o o' : PObj, TypeInv o → construct as o = .ok o' → TypeInv o' := by
  induction as with
  | nil => intro o o' h hc; simp [construct] at hc; subst hc; exact h
  | cons a rest ih =>
    intro o o' h hc
    simp only [construct] at hc
    cases hs : setattr o a.name a.vid a.fv a.isDict with
    | ok o1 => rw [hs] at hc; exact ih o1 o' (setattr_inv o o1 _ _ _ _ hs) hc
    | error e => rw [hs] at hc; cases hc

/-! ### Non-vacuity -/
example : (run empty [⟨"subjects", 1, .seq [.str], false⟩, ⟨"actions", 2, .seq [.rule], false⟩,
    ⟨"subjects", 3, .seq [], false⟩, ⟨"actions", 4, .seq [.rule], false⟩, ⟨"type", 5, .scalar, false⟩]).typ = typeRule := by
  decide

end Vakt.C10
