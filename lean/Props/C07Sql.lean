import Model.SqlQuery
import Props.C07
import Props.C07Regex
/-!
# C07 (continued) — the SQL prefilters of the fuzzy and regex checkers

Over `Model/SqlQuery.lean` (SQL `LIKE` modelled exactly; the regex-operator query over the child rows that
`PolicyModel._save` writes):

* `like_infix` — **`e LIKE '%' || w || '%'` holds whenever `w` is a substring of `e`**, whatever `%` and `_`
  characters `w` itself contains, for every reflexive character equality, *when the dialect has no escape
  character* (SQLite); `like_escape_incomplete` is the counter-example for a dialect whose `LIKE` has the backslash
  as its default escape character (MySQL, PostgreSQL): the element `a\b` contains the value `a\b`, the row is not found;
* `sql_fuzzy_complete`, `sql_fuzzy_dropped_no_match`, `sql_fuzzy_decision_eq` — the fuzzy checker over SQL;
* `sql_regex_complete`, `sql_regex_dropped_no_match`, `sql_regex_decision_eq` — the regex checker over a dialect
  with a regex operator, for every `search` that finds what the model's whole-string match accepts.
-/
namespace Vakt.C07
open Vakt PyVal Prefilter StorageCodec RuleCodec TagParser SqlQuery

/-! ## `LIKE` -/

theorem anySuffix_self (f : List Char → Bool) (s : List Char) (h : f s = true) : anySuffix f s = true := by
  cases s <;> simp [anySuffix, h]

theorem anySuffix_append (f : List Char → Bool) (pre s : List Char) (h : anySuffix f s = true) :
    anySuffix f (pre ++ s) = true := by
  induction pre with
  | nil => exact h
  | cons c t ih => simp [anySuffix, ih]

theorem anySuffix_of_nil (f : List Char → Bool) (h : f [] = true) (s : List Char) : anySuffix f s = true := by
  induction s with
  | nil => exact h
  | cons c t ih => simp [anySuffix, ih]

theorem tokAux_none_append (w rest : List Char) :
    tokAux Option.none false (w ++ rest) = tokAux Option.none false w ++ tokAux Option.none false rest := by
  induction w with
  | nil => simp [tokAux]
  | cons c t ih =>
    simp only [List.cons_append, tokAux, reduceCtorEq, ↓reduceIte]
    split
    · simp [ih]
    · split <;> simp [ih]

/-- the tokens of `w` (no escape character) match `w` itself, followed by whatever the rest of the pattern matches -/
theorem likeT_self (ceq : Char → Char → Bool) (hr : ∀ c, ceq c c = true) (rest : List Tok) (w post : List Char)
    (h : likeT ceq rest post = true) : likeT ceq (tokAux Option.none false w ++ rest) (w ++ post) = true := by
  induction w with
  | nil => simpa [tokAux] using h
  | cons c t ih =>
    simp only [List.cons_append, tokAux, reduceCtorEq, ↓reduceIte]
    split
    · -- `c` is a `%`: it matches the one character `c`
      simp only [List.cons_append, likeT, anySuffix]
      rw [anySuffix_self _ _ ih]
      simp
    · split
      · simp [likeT, ih]
      · simp [likeT, hr, ih]

/-- the pattern `w%` matches every string that starts with `w` — also when `w` contains `%` or `_` -/
theorem like_prefix (ceq : Char → Char → Bool) (hr : ∀ c, ceq c c = true) (w post : List Char) :
    like ceq Option.none (w ++ ['%']) (w ++ post) = true := by
  simp only [like, tokAux_none_append]
  apply likeT_self ceq hr
  simp only [tokAux, reduceCtorEq, ↓reduceIte, likeT]
  exact anySuffix_of_nil _ (by simp [likeT]) post

/-- **completeness of `LIKE '%w%'` without an escape character**: every string containing `w` matches -/
theorem like_infix (ceq : Char → Char → Bool) (hr : ∀ c, ceq c c = true) (w e : List Char) (h : w <:+: e) :
    like ceq Option.none (fuzzyPattern w) e = true := by
  obtain ⟨pre, post, rfl⟩ := h
  have := like_prefix ceq hr w post
  simp only [like] at this
  simp only [fuzzyPattern, like, tokAux, reduceCtorEq, ↓reduceIte, likeT, List.append_assoc]
  exact anySuffix_append _ pre _ (anySuffix_self _ _ this)

/-- with the backslash as escape character (the default of MySQL and PostgreSQL) the same pattern misses an element
that contains the value: `'a\b' LIKE '%a\b%'` is false, because `\b` in the pattern stands for a plain `b` -/
theorem like_escape_incomplete :
    "a\\b".toList <:+: "a\\b".toList ∧
    like (fun a b => a == b) (some '\\') (fuzzyPattern "a\\b".toList) "a\\b".toList = false := by
  refine ⟨List.infix_refl _, ?_⟩
  decide

theorem sqliteCeq_refl (c : Char) : sqliteCeq c c = true := by simp [sqliteCeq]

/-! ## the stored rows of a string-based policy -/

theorem strBased_eq (p : Policy) : strBased p = isStringTyped p := by
  simp only [strBased, isStringTyped, List.all_append]

theorem rows_of_elems (c : Compile) (p : Policy) (hs : strBased p = true) :
    ∀ (es : List Elem) (rows : List ElemRow), mapOpt (elemToDb c p) es = some rows →
      ∀ e, Elem.str e ∈ es → ∃ r ∈ rows, r.str = some e ∧
        (r.regex = if hasTags p e then c p.stag p.etag e else Option.none) ∧ (hasTags p e = true → r.regex.isSome)
  | [], rows, _, e, he => by cases he
  | x :: rest, rows, h, e, he => by
    obtain ⟨r, rs, hr, hrs, rfl⟩ := mapOpt_cons_some _ _ _ _ h
    rcases List.mem_cons.1 he with rfl | he'
    · refine ⟨r, List.mem_cons_self, ?_⟩
      simp only [elemToDb, hs, ↓reduceIte] at hr
      by_cases ht : hasTags p e = true
      · simp only [ht, ↓reduceIte, Option.map_eq_some_iff] at hr
        obtain ⟨t, hc, rfl⟩ := hr
        simp [ht, hc]
      · simp only [ht, Bool.false_eq_true, ↓reduceIte, Option.some.injEq] at hr
        subst hr
        simp [ht]
    · obtain ⟨r', hm, h'⟩ := rows_of_elems c p hs rest rs hrs e he'
      exact ⟨r', List.mem_cons_of_mem _ hm, h'⟩

theorem toRow_fields (c : Compile) (p : Policy) (row : SqlRow) (h : toRow c p = some row) :
    row.typ = .int (typeOf p) ∧ ∀ f, mapOpt (elemToDb c p) (p.field f) = some (row.field f) := by
  simp only [toRow] at h
  split at h
  · rename_i u s r a hu hs hr ha
    cases h
    refine ⟨rfl, fun f => ?_⟩
    cases f <;> simp [SqlRow.field, Policy.field, hs, hr, ha]
  · cases h

theorem types_differ : Generated.typeStringBased ≠ Generated.typeRuleBased := by decide

theorem pyEq_int_int (a b : Nat) : pyEq (.int (a : Int)) (.int (b : Int)) = (a == b) := by
  simp only [pyEq, asNum, numEq, Int.pow_zero, Int.mul_one]
  by_cases h : a = b
  · subst h; simp
  · have h2 : ¬ ((a : Int) = (b : Int)) := by omega
    have e1 : ((a : Int) == (b : Int)) = false := by simpa using h2
    have e2 : (a == b) = false := by simpa using h
    rw [e1, e2]

theorem row_typ_string (c : Compile) (p : Policy) (row : SqlRow) (h : toRow c p = some row) :
    pyEq row.typ (.int Generated.typeStringBased) = isStringTyped p := by
  rw [(toRow_fields c p row h).1, typeOf, strBased_eq]
  cases hs : isStringTyped p
  · have hne : Generated.typeRuleBased ≠ Generated.typeStringBased := fun e => types_differ e.symm
    simp only [Bool.false_eq_true, ↓reduceIte]
    rw [pyEq_int_int]
    simpa using hne
  · simp only [↓reduceIte]
    rw [pyEq_int_int]
    simp

/-! ## the fuzzy checker -/

/-- **completeness**: a field the fuzzy checker matches has a child row satisfying the `LIKE` (no escape character) -/
theorem sql_fuzzy_complete (ceq : Char → Char → Bool) (hr : ∀ c, ceq c c = true) (c : Compile) (p : Policy)
    (row : SqlRow) (hrow : toRow c p = some row) (hst : isStringTyped p = true) (f : Field) (w : List Char)
    (hf : fuzzyFits p f (.str w) = .ok true) : likeField ceq Option.none (row.field f) w = true := by
  obtain ⟨e, he, hi⟩ := (C06.fuzzy_iff p f w).1 hf
  have hinf : w <:+: e := List.IsInfix.trans hi (inner_infix _ _ e)
  obtain ⟨r, hm, hs, _⟩ := rows_of_elems c p (by rw [strBased_eq]; exact hst) _ _ ((toRow_fields c p row hrow).2 f) e he
  simp only [likeField, List.any_eq_true]
  exact ⟨r, hm, by simp [hs, like_infix ceq hr w e hinf]⟩

/-- a stored policy the fuzzy query does not return neither matches nor raises -/
theorem sql_fuzzy_dropped_no_match (ceq : Char → Char → Bool) (hr : ∀ c, ceq c c = true) (c : Compile) (p : Policy)
    (row : SqlRow) (hrow : toRow c p = some row) (hw : WellTyped p) (q : Inquiry) (a s r : List Char)
    (hq : q.action = .str a ∧ q.subject = .str s ∧ q.resource = .str r)
    (hd : fuzzyCond ceq Option.none row a s r = false) : guardMatch .fuzzy q p = .ok false := by
  by_cases hst : isStringTyped p = true
  · obtain ⟨ba, hba⟩ := (C06.string_total p .actions a).2
    obtain ⟨bs, hbs⟩ := (C06.string_total p .subjects s).2
    obtain ⟨br, hbr⟩ := (C06.string_total p .resources r).2
    simp only [fuzzyCond, row_typ_string c p row hrow, hst, Bool.true_and, Bool.and_eq_false_iff] at hd
    simp only [guardMatch, matchP, fits, hq.1, hq.2.1, hq.2.2, hba, hbs, hbr]
    have ca := sql_fuzzy_complete ceq hr c p row hrow hst .actions a
    have cs := sql_fuzzy_complete ceq hr c p row hrow hst .subjects s
    have cr := sql_fuzzy_complete ceq hr c p row hrow hst .resources r
    simp only [SqlRow.field] at ca cs cr
    rcases hd with (hd | hd) | hd
    · cases ba
      · simp [andThen]
      · rw [ca hba] at hd; cases hd
    · cases br
      · cases ba <;> cases bs <;> simp [andThen]
      · rw [cr hbr] at hd; cases hd
    · cases bs
      · cases ba <;> simp [andThen]
      · rw [cs hbs] at hd; cases hd
  · have hst' : isStringTyped p = false := by simpa using hst
    exact (other_type_no_match .fuzzy q p hw).1 (by decide) hst'

/-- **the fuzzy decision over SQL (no escape character) equals the decision over the whole table** -/
theorem sql_fuzzy_decision_eq (ceq : Char → Char → Bool) (hr : ∀ c, ceq c c = true) (c : Compile) (ps : List Policy)
    (q : Inquiry) (a s r : List Char) (hq : q.action = .str a ∧ q.subject = .str s ∧ q.resource = .str r)
    (hw : ∀ p ∈ ps, WellTyped p) (hstor : ∀ p ∈ ps, (toRow c p).isSome) :
    decide (guardMatch .fuzzy q) (SqlQuery.find (fun row => fuzzyCond ceq Option.none row a s r) c ps) =
      decide (guardMatch .fuzzy q) ps := by
  unfold SqlQuery.find
  apply superset_ok
  intro p hp hk
  obtain ⟨row, hrow⟩ := Option.isSome_iff_exists.mp (hstor p hp)
  simp only [hrow] at hk
  exact sql_fuzzy_dropped_no_match ceq hr c p row hrow (hw p hp) q a s r hq (by simpa using hk)

/-! ## the regex checker on a dialect with a regex operator -/

/-- one element against its child row -/
theorem elem_row (search : Search) (hss : SearchSound search) (p : Policy) (e w : List Char) (r : ElemRow)
    (hs : r.str = some e)
    (hrx : r.regex = if hasTags p e then modelCompile p.stag p.etag e else Option.none)
    (hsome : hasTags p e = true → r.regex.isSome) :
    (regexElem p.stag p.etag e (.str w) = .done (.ok true) → regexRow search w r = true) ∧
    (regexElem p.stag p.etag e (.str w) = .done (.ok true) ∨ regexElem p.stag p.etag e (.str w) = .done (.ok false) ∨
     regexElem p.stag p.etag e (.str w) = .next) := by
  by_cases htag : tagged p.stag p.etag e = true
  · cases hsc : scan p.stag p.etag e with
    | none => simp [regexElem, htag, hsc]
    | some ps =>
      obtain ⟨h1, h2⟩ := scan_tagged_hasBoth _ _ e ps hsc htag
      have hh : hasTags p e = true := by simp only [hasTags, h1, h2, Bool.and_self]
      have hsm := hsome hh
      simp only [hh, ↓reduceIte, modelCompile, compileText, hsc] at hrx
      cases hre : piecesRe ps with
      | ok re rest =>
        simp only [hre] at hrx
        simp only [regexElem, htag, Bool.not_true, Bool.false_eq_true, ↓reduceIte, hsc, hre]
        by_cases hacc : re.accepts w = true
        · simp only [hacc, ↓reduceIte, true_or, and_true]
          intro _
          simp only [regexRow, hrx]
          exact hss ps re rest w hre hacc
        · simp [hacc]
      | invalid => simp [hre] at hrx; rw [hrx] at hsm; cases hsm
      | unsupported => simp [hre] at hrx; rw [hrx] at hsm; cases hsm
  · have htag' : tagged p.stag p.etag e = false := by simpa using htag
    have hh : hasTags p e = false := by
      simp only [tagged, Bool.or_eq_false_iff] at htag'
      simp only [hasTags, htag'.1, Bool.false_and]
    simp only [hh, Bool.false_eq_true, ↓reduceIte] at hrx
    simp only [regexElem, htag', Bool.not_false, ↓reduceIte]
    by_cases heq : pyEq (.str e) (.str w) = true
    · have : e = w := by simpa [pyEq] using heq
      subst this
      simp [heq, regexRow, hrx, hs]
    · simp [heq]

/-- a field: if the checker matches, some child row satisfies the condition; the checker never raises on a string -/
theorem field_rows (search : Search) (hss : SearchSound search) (p : Policy) (hsb : strBased p = true) (w : List Char) :
    ∀ (es : List Elem) (rows : List ElemRow), mapOpt (elemToDb modelCompile p) es = some rows →
      (regexLoop p.stag p.etag (.str w) es = .ok true → rows.any (regexRow search w) = true) ∧
      (regexLoop p.stag p.etag (.str w) es = .ok true ∨ regexLoop p.stag p.etag (.str w) es = .ok false)
  | [], rows, _ => by simp [regexLoop]
  | .str e :: rest, rows, h => by
    obtain ⟨r, rs, hr, hrs, rfl⟩ := mapOpt_cons_some _ _ _ _ h
    obtain ⟨ih1, ih2⟩ := field_rows search hss p hsb w rest rs hrs
    obtain ⟨r', hm, hs', hrx, hsome⟩ :=
      rows_of_elems modelCompile p hsb [.str e] [r] (by simp [mapOpt, hr]) e List.mem_cons_self
    have : r' = r := by simpa using hm
    subst this
    obtain ⟨he1, he2⟩ := elem_row search hss p e w r' hs' hrx hsome
    simp only [regexLoop]
    rcases he2 with hd | hd | hd
    · simp [hd, he1 hd]
    · simp [hd]
    · simp only [hd]
      refine ⟨fun hl => ?_, ih2⟩
      simp [ih1 hl]
  | .rule x :: rest, rows, h => by
    simp [mapOpt, elemToDb, hsb] at h
  | .attrs kvs :: rest, rows, h => by
    simp [mapOpt, elemToDb, hsb] at h

/-- **completeness**: a field the regex checker matches has a child row satisfying the regex condition -/
theorem sql_regex_complete (search : Search) (hss : SearchSound search) (p : Policy) (row : SqlRow)
    (hrow : toRow modelCompile p = some row) (hst : isStringTyped p = true) (f : Field) (w : List Char)
    (hf : regexFits p f (.str w) = .ok true) : regexField search (row.field f) w = true :=
  (field_rows search hss p (by rw [strBased_eq]; exact hst) w _ _ ((toRow_fields _ p row hrow).2 f)).1 hf

theorem sql_regex_total (search : Search) (hss : SearchSound search) (p : Policy) (row : SqlRow)
    (hrow : toRow modelCompile p = some row) (hst : isStringTyped p = true) (f : Field) (w : List Char) :
    regexFits p f (.str w) = .ok true ∨ regexFits p f (.str w) = .ok false :=
  (field_rows search hss p (by rw [strBased_eq]; exact hst) w _ _ ((toRow_fields _ p row hrow).2 f)).2

/-- a stored policy the regex query does not return neither matches nor raises -/
theorem sql_regex_dropped_no_match (search : Search) (hss : SearchSound search) (p : Policy) (row : SqlRow)
    (hrow : toRow modelCompile p = some row) (hw : WellTyped p) (q : Inquiry) (a s r : List Char)
    (hq : q.action = .str a ∧ q.subject = .str s ∧ q.resource = .str r)
    (hd : regexCond search row a s r = false) : guardMatch .regex q p = .ok false := by
  by_cases hst : isStringTyped p = true
  · have ta := sql_regex_total search hss p row hrow hst .actions a
    have ts := sql_regex_total search hss p row hrow hst .subjects s
    have tr := sql_regex_total search hss p row hrow hst .resources r
    have ca := sql_regex_complete search hss p row hrow hst .actions a
    have cs := sql_regex_complete search hss p row hrow hst .subjects s
    have cr := sql_regex_complete search hss p row hrow hst .resources r
    simp only [SqlRow.field] at ca cs cr
    simp only [regexCond, row_typ_string _ p row hrow, hst, Bool.true_and, Bool.and_eq_false_iff] at hd
    simp only [guardMatch, matchP, fits, hq.1, hq.2.1, hq.2.2]
    rcases ta with ha | ha
    · rcases ts with hs | hs
      · rcases tr with hr | hr
        · rcases hd with (hd | hd) | hd
          · rw [ca ha] at hd; cases hd
          · rw [cr hr] at hd; cases hd
          · rw [cs hs] at hd; cases hd
        · simp [ha, hs, hr, andThen]
      · simp [ha, hs, andThen]
    · simp [ha, andThen]
  · have hst' : isStringTyped p = false := by simpa using hst
    exact (other_type_no_match .regex q p hw).1 (by decide) hst'

/-- **the regex decision over a regex-capable SQL dialect equals the decision over the whole table** -/
theorem sql_regex_decision_eq (search : Search) (hss : SearchSound search) (ps : List Policy) (q : Inquiry)
    (a s r : List Char) (hq : q.action = .str a ∧ q.subject = .str s ∧ q.resource = .str r)
    (hw : ∀ p ∈ ps, WellTyped p) (hstor : ∀ p ∈ ps, (toRow modelCompile p).isSome) :
    decide (guardMatch .regex q) (SqlQuery.find (fun row => regexCond search row a s r) modelCompile ps) =
      decide (guardMatch .regex q) ps := by
  unfold SqlQuery.find
  apply superset_ok
  intro p hp hk
  obtain ⟨row, hrow⟩ := Option.isSome_iff_exists.mp (hstor p hp)
  simp only [hrow] at hk
  exact sql_regex_dropped_no_match search hss p row hrow (hw p hp) q a s r hq (by simpa using hk)

/-! ### Non-vacuity -/

example : like sqliteCeq Option.none (fuzzyPattern "a%_b".toList) "xxA%_Byy".toList = true ∧
    like sqliteCeq Option.none (fuzzyPattern "a_c".toList) "abc".toList = true ∧      -- `_` as a wildcard: an extra candidate
    like sqliteCeq Option.none (fuzzyPattern "abc".toList) "ab".toList = false := by decide

example :
    let search : Search := fun rx v => rx = "^(m.x)$".toList && v = "max".toList
    let p : Policy := { uid := .str "1".toList, effect := .str Generated.allowConst, description := .none,
                        subjects := [.str "<m.x>".toList], resources := [.str "r".toList], actions := [.str "get".toList],
                        context := [], stag := '<', etag := '>' }
    regexFits p .subjects (.str "max".toList) = .ok true ∧
    (toRow modelCompile p).map (fun row => regexCond search row "get".toList "max".toList "r".toList) = some true := by
  decide +kernel

end Vakt.C07
