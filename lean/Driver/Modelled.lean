import Model.Guard
/-!
# The modelled domain

The model's functions are total, but they only *claim* to describe CPython / vakt inside the
domain decided here (conservatively, over every sub-evaluation that could happen).  Outside
it the driver answers `unmodelled`; the harness counts such cases and never judges them by
the model.
-/
namespace Vakt.Modelled
open Vakt PyVal

mutual
def valKnown : PyVal → Bool
  | .str s => CharTable.allKnown s
  | .list xs => valsKnown xs
  | .tuple xs => valsKnown xs
  | .dict kvs => kvsKnown kvs
  | _ => true
def valsKnown : List PyVal → Bool
  | [] => true
  | x :: xs => valKnown x && valsKnown xs
def kvsKnown : List (List Char × PyVal) → Bool
  | [] => true
  | (k, v) :: rest => CharTable.allKnown k && valKnown v && kvsKnown rest
end

def regexOk (pat : List Char) : Bool :=
  CharTable.allKnown pat &&
  match parsePattern (Rule.stripAnchors pat).1 with
  | .ok _ _ => true
  | _ => false

def cidrOk (c what : PyVal) : Bool :=
  match c with
  | .str n =>
    (match Cidr.parseNet n with | .unmodelled => false | _ => true)
  | _ => (match what with | .str _ => false | _ => true)

mutual
def rule : Rule → PyVal → Bool
  | .and rs, w => rules rs w
  | .or rs, w => rules rs w
  | .not r, w => rule r w
  | .regexMatch p, w => regexOk p && (pyStr w).isSome
  | .cidr c, w => cidrOk c w
  | .eq v, _ => valKnown v | .notEq v, _ => valKnown v
  | .greater v, _ => valKnown v | .less v, _ => valKnown v
  | .greaterOrEqual v, _ => valKnown v | .lessOrEqual v, _ => valKnown v
  | .isIn d, _ => valsKnown d | .notIn d, _ => valsKnown d
  | .allIn d, _ => valsKnown d | .allNotIn d, _ => valsKnown d
  | .anyIn d, _ => valsKnown d | .anyNotIn d, _ => valsKnown d
  | .strEqual v _, _ => CharTable.allKnown v | .startsWith v _, _ => CharTable.allKnown v
  | .endsWith v _, _ => CharTable.allKnown v | .contains v _, _ => CharTable.allKnown v
  | .inqMatch _ (some a), _ => valKnown a
  | _, _ => true
def rules : List Rule → PyVal → Bool
  | [], _ => true
  | r :: rs, w => rule r w && rules rs w
end

def attrVal (a : AttrVal) (w : PyVal) : Bool :=
  match a with | .junk => true | .rule r => rule r w

/-- every value an attribute rule could be offered: the looked-up one -/
def attrs (kvs : List (List Char × AttrVal)) (w : PyVal) : Bool :=
  kvs.all fun (k, a) =>
    CharTable.allKnown k &&
    match w with
    | .dict d => (match lookup k d with | some v => attrVal a v | Option.none => true)
    | _ => true

def segsOk (stag etag : Char) (e : List Char) : Bool :=
  CharTable.allKnown e &&
  (!TagParser.tagged stag etag e ||
   match TagParser.scan stag etag e with
   | Option.none => true
   | some ps => (match piecesRe ps with | .unsupported => false | _ => true))

def elem (k : CheckerKind) (stag etag : Char) (w : PyVal) : Elem → Bool
  | .str s => (match k with | .regex => segsOk stag etag s | _ => CharTable.allKnown s)
  | .rule r => (match k with | .rules => rule r w | _ => true)
  | .attrs kvs => (match k with | .rules => attrs kvs w | _ => true)

def policy (k : CheckerKind) (p : Policy) (q : Inquiry) : Bool :=
  valKnown p.uid && valKnown p.effect &&
  p.actions.all (elem k p.stag p.etag q.action) &&
  p.subjects.all (elem k p.stag p.etag q.subject) &&
  p.resources.all (elem k p.stag p.etag q.resource) &&
  attrs p.context q.context

def inquiry (q : Inquiry) : Bool :=
  valKnown q.action && valKnown q.subject && valKnown q.resource && valKnown q.context

end Vakt.Modelled
