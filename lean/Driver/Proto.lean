import Model.Guard
/-!
# Line protocol codec (mirror of harness/proto.py)

Parsers work on a token list; every parser returns `none` on anything it cannot read (the
driver then answers `bad-op`, never a default).  Printers are the inverse, used by `ECHO`.
-/
namespace Vakt.Proto
open Vakt

abbrev Toks := List String
abbrev P (α : Type) := Toks → Option (α × Toks)

def parseCps (s : String) : Option (List Char) :=
  if s.isEmpty then some [] else
  (s.splitOn ",").foldr (fun part acc =>
    match acc, part.toNat? with
    | some cs, some n => some (Char.ofNat n :: cs)
    | _, _ => none) (some [])

def parseStrTok (t : String) : Option (List Char) :=
  if t.startsWith "S" then parseCps (t.drop 1).toString else none

def pStr : P (List Char)
  | t :: rest => (parseStrTok t).map (·, rest)
  | [] => none

def pNat : P Nat
  | t :: rest => t.toNat?.map (·, rest)
  | [] => none

def pBool : P Bool
  | "T" :: rest => some (true, rest)
  | "F" :: rest => some (false, rest)
  | _ => none

def repeatP {α : Type} (p : P α) : Nat → P (List α)
  | 0, ts => some ([], ts)
  | n + 1, ts => do
    let (a, ts) ← p ts
    let (as, ts) ← repeatP p n ts
    pure (a :: as, ts)

partial def pVal : P PyVal
  | [] => none
  | t :: rest =>
    if t == "N" then some (.none, rest)
    else if t == "T" then some (.bool true, rest)
    else if t == "F" then some (.bool false, rest)
    else if t.startsWith "I" then (t.drop 1).toString.toInt?.map (fun n => (.int n, rest))
    else if t.startsWith "D" then
      match (t.drop 1).toString.splitOn "/" with
      | [a, b] => do let n ← a.toInt?; let e ← b.toNat?; pure (.flt n e, rest)
      | _ => none
    else if t.startsWith "S" then (parseCps (t.drop 1).toString).map (fun s => (.str s, rest))
    else if t.startsWith "L" then do
      let n ← (t.drop 1).toString.toNat?
      let (xs, ts) ← repeatP pVal n rest
      pure (.list xs, ts)
    else if t.startsWith "U" then do
      let n ← (t.drop 1).toString.toNat?
      let (xs, ts) ← repeatP pVal n rest
      pure (.tuple xs, ts)
    else if t.startsWith "M" then do
      let n ← (t.drop 1).toString.toNat?
      let (kvs, ts) ← repeatP (fun ts => do
        let (k, ts) ← pStr ts
        let (v, ts) ← pVal ts
        pure ((k, v), ts)) n rest
      pure (.dict kvs, ts)
    else none

def pCounted {α : Type} (p : P α) : P (List α) := fun ts => do
  let (n, ts) ← pNat ts
  repeatP p n ts

def pField : P InqField
  | "s" :: r => some (.subject, r)
  | "a" :: r => some (.action, r)
  | "r" :: r => some (.resource, r)
  | _ => none

partial def pRule : P Rule
  | [] => none
  | t :: rest =>
    let v1 (c : PyVal → Rule) : Option (Rule × Toks) := do let (v, ts) ← pVal rest; pure (c v, ts)
    let vs (c : List PyVal → Rule) : Option (Rule × Toks) := do let (d, ts) ← pCounted pVal rest; pure (c d, ts)
    let sb (c : List Char → Bool → Rule) : Option (Rule × Toks) := do
      let (s, ts) ← pStr rest; let (b, ts) ← pBool ts; pure (c s b, ts)
    match t with
    | "Req" => v1 .eq | "Rne" => v1 .notEq | "Rgt" => v1 .greater | "Rlt" => v1 .less
    | "Rge" => v1 .greaterOrEqual | "Rle" => v1 .lessOrEqual
    | "Rin" => vs .isIn | "Rnin" => vs .notIn | "Rallin" => vs .allIn | "Rallnin" => vs .allNotIn
    | "Ranyin" => vs .anyIn | "Ranynin" => vs .anyNotIn
    | "Rtruthy" => some (.truthy, rest) | "Rfalsy" => some (.falsy, rest)
    | "Rany" => some (.any, rest) | "Rneither" => some (.neither, rest)
    | "Rpairs" => some (.pairsEqual, rest)
    | "Rsubjeq" => some (.subjectEqual, rest) | "Racteq" => some (.actionEqual, rest)
    | "Rresin" => some (.resourceIn, rest) | "Rraise" => some (.raising, rest)
    | "Rconst" => do let (b, ts) ← pBool rest; pure (.constant b, ts)
    | "Rand" => do let (rs, ts) ← pCounted pRule rest; pure (.and rs, ts)
    | "Ror" => do let (rs, ts) ← pCounted pRule rest; pure (.or rs, ts)
    | "Rnot" => do let (r, ts) ← pRule rest; pure (.not r, ts)
    | "Rstreq" => sb .strEqual | "Rstarts" => sb .startsWith | "Rends" => sb .endsWith
    | "Rcontains" => sb .contains
    | "Rregex" => do let (s, ts) ← pStr rest; pure (.regexMatch s, ts)
    | "Rcidr" => v1 .cidr
    | "Rmatch" => do
      let (f, ts) ← pField rest
      match ts with
      | "-" :: ts => pure (.inqMatch f none, ts)
      | _ => do let (v, ts) ← pVal ts; pure (.inqMatch f (some v), ts)
    | _ => none

def pAttrVal : P AttrVal
  | "XJ" :: rest => some (.junk, rest)
  | ts => (pRule ts).map (fun (r, ts) => (.rule r, ts))

def pKV : P (List Char × AttrVal) := fun ts => do
  let (k, ts) ← pStr ts
  let (v, ts) ← pAttrVal ts
  pure ((k, v), ts)

def pElem : P Elem
  | "ES" :: rest => (pStr rest).map (fun (s, ts) => (.str s, ts))
  | "ER" :: rest => (pRule rest).map (fun (r, ts) => (.rule r, ts))
  | "EA" :: rest => (pCounted pKV rest).map (fun (kvs, ts) => (.attrs kvs, ts))
  | _ => none

def pChar : P Char := fun ts => (pNat ts).map (fun (n, ts) => (Char.ofNat n, ts))

def pPolicy : P Policy
  | "P" :: ts => do
    let (uid, ts) ← pVal ts
    let (effect, ts) ← pVal ts
    let (desc, ts) ← pVal ts
    let (stag, ts) ← pChar ts
    let (etag, ts) ← pChar ts
    let (subj, ts) ← pCounted pElem ts
    let (res, ts) ← pCounted pElem ts
    let (act, ts) ← pCounted pElem ts
    let (ctx, ts) ← pCounted pKV ts
    pure ({ uid := uid, effect := effect, description := desc, subjects := subj, resources := res,
            actions := act, context := ctx, stag := stag, etag := etag }, ts)
  | _ => none

def pInquiry : P Inquiry
  | "Q" :: ts => do
    let (res, ts) ← pVal ts
    let (act, ts) ← pVal ts
    let (subj, ts) ← pVal ts
    let (ctx, ts) ← pVal ts
    pure ({ resource := res, action := act, subject := subj, context := ctx }, ts)
  | _ => none

def pOptInquiry : P (Option Inquiry)
  | "-" :: ts => some (none, ts)
  | ts => (pInquiry ts).map (fun (q, ts) => (some q, ts))

def pChecker : P CheckerKind
  | "KR" :: ts => some (.regex, ts)
  | "KX" :: ts => some (.exact, ts)
  | "KF" :: ts => some (.fuzzy, ts)
  | "KU" :: ts => some (.rules, ts)
  | _ => none

def pPolField : P Field
  | "a" :: r => some (.actions, r)
  | "s" :: r => some (.subjects, r)
  | "r" :: r => some (.resources, r)
  | _ => none

/-! ## Printers -/

def showCps (s : List Char) : String := ",".intercalate (s.map (fun c => toString c.toNat))
def showStr (s : List Char) : String := "S" ++ showCps s

partial def showVal : PyVal → String
  | .none => "N"
  | .bool true => "T"
  | .bool false => "F"
  | .int n => "I" ++ toString n
  | .flt a e => "D" ++ toString a ++ "/" ++ toString e
  | .str s => showStr s
  | .list xs => " ".intercalate (("L" ++ toString xs.length) :: xs.map showVal)
  | .tuple xs => " ".intercalate (("U" ++ toString xs.length) :: xs.map showVal)
  | .dict kvs => " ".intercalate (("M" ++ toString kvs.length) :: kvs.map (fun (k, v) => showStr k ++ " " ++ showVal v))

def showB (b : Bool) : String := if b then "T" else "F"
def showCounted (xs : List String) : String := " ".intercalate (toString xs.length :: xs)

partial def showRule : Rule → String
  | .eq v => "Req " ++ showVal v | .notEq v => "Rne " ++ showVal v
  | .greater v => "Rgt " ++ showVal v | .less v => "Rlt " ++ showVal v
  | .greaterOrEqual v => "Rge " ++ showVal v | .lessOrEqual v => "Rle " ++ showVal v
  | .isIn d => "Rin " ++ showCounted (d.map showVal) | .notIn d => "Rnin " ++ showCounted (d.map showVal)
  | .allIn d => "Rallin " ++ showCounted (d.map showVal) | .allNotIn d => "Rallnin " ++ showCounted (d.map showVal)
  | .anyIn d => "Ranyin " ++ showCounted (d.map showVal) | .anyNotIn d => "Ranynin " ++ showCounted (d.map showVal)
  | .truthy => "Rtruthy" | .falsy => "Rfalsy" | .any => "Rany" | .neither => "Rneither"
  | .pairsEqual => "Rpairs" | .subjectEqual => "Rsubjeq" | .actionEqual => "Racteq"
  | .resourceIn => "Rresin" | .raising => "Rraise"
  | .constant b => "Rconst " ++ showB b
  | .and rs => "Rand " ++ showCounted (rs.map showRule)
  | .or rs => "Ror " ++ showCounted (rs.map showRule)
  | .not r => "Rnot " ++ showRule r
  | .strEqual s b => "Rstreq " ++ showStr s ++ " " ++ showB b
  | .startsWith s b => "Rstarts " ++ showStr s ++ " " ++ showB b
  | .endsWith s b => "Rends " ++ showStr s ++ " " ++ showB b
  | .contains s b => "Rcontains " ++ showStr s ++ " " ++ showB b
  | .regexMatch s => "Rregex " ++ showStr s
  | .cidr v => "Rcidr " ++ showVal v
  | .inqMatch f a =>
    "Rmatch " ++ (match f with | .subject => "s" | .action => "a" | .resource => "r") ++ " " ++
      (match a with | none => "-" | some v => showVal v)

def showAttrVal : AttrVal → String
  | .junk => "XJ"
  | .rule r => showRule r

def showKV (kv : List Char × AttrVal) : String := showStr kv.1 ++ " " ++ showAttrVal kv.2

def showElem : Elem → String
  | .str s => "ES " ++ showStr s
  | .rule r => "ER " ++ showRule r
  | .attrs kvs => "EA " ++ showCounted (kvs.map showKV)

def showPolicy (p : Policy) : String :=
  " ".intercalate ["P", showVal p.uid, showVal p.effect, showVal p.description,
    toString p.stag.toNat, toString p.etag.toNat,
    showCounted (p.subjects.map showElem), showCounted (p.resources.map showElem),
    showCounted (p.actions.map showElem), showCounted (p.context.map showKV)]

def showInquiry (q : Inquiry) : String :=
  " ".intercalate ["Q", showVal q.resource, showVal q.action, showVal q.subject, showVal q.context]

end Vakt.Proto
