import Driver.Proto
import Driver.Modelled
import Model.Audit
import Model.PolicyObj
import Model.Store
import Model.Backends
import Model.Enfold
import Model.CachedGuard
import Model.Migration
import Model.InquiryEq
import Model.Serialize
import Model.RuleCodec
import Model.Prefilter
import Model.MongoMig
import Model.Conc
import Model.StorageCodec
import Model.MongoRegex
import Model.SqlQuery
/-!
# `vaktdrv`: one case per line in, one result per line out
-/
open Vakt Vakt.Proto

def full {α : Type} : Option (α × Toks) → Option α
  | some (a, []) => some a
  | _ => none

def showR : R → String
  | .ok true => "ok T"
  | .ok false => "ok F"
  | .error _ => "raise"

def showUids (ps : List Policy) : String := showCounted (ps.map (fun p => showVal p.uid))

def showPieces (ps : List Piece) : String :=
  showCounted (ps.map fun | .lit l => "lit " ++ showStr l | .seg s => "seg " ++ showStr s)


/-! ## storage codecs: rows as values -/
open Vakt.StorageCodec in
def elemRowVal (r : ElemRow) : PyVal :=
  .list [r.json.getD .none, (r.str.map PyVal.str).getD .none, (r.regex.map PyVal.str).getD .none]

open Vakt.StorageCodec in
def rowVal (r : SqlRow) : PyVal :=
  .dict [("uid".toList, r.uid), ("type".toList, r.typ), ("description".toList, r.description),
         ("effect".toList, .bool r.effect), ("context".toList, r.context),
         ("subjects".toList, .list (r.subjects.map elemRowVal)), ("resources".toList, .list (r.resources.map elemRowVal)),
         ("actions".toList, .list (r.actions.map elemRowVal))]

open Vakt.StorageCodec in
def elemRowOfVal : PyVal → Option ElemRow
  | .list [j, s, r] =>
    let j' := match j with | .none => Option.none | v => some v
    match s, r with
    | .none, .none => some { json := j', str := Option.none, regex := Option.none }
    | .str x, .none => some { json := j', str := some x, regex := Option.none }
    | .str x, .str y => some { json := j', str := some x, regex := some y }
    | .none, .str y => some { json := j', str := Option.none, regex := some y }
    | _, _ => Option.none
  | _ => Option.none

open Vakt.StorageCodec in
def rowOfVal : PyVal → Option SqlRow
  | .dict kvs => do
    let g := fun (k : String) => PyVal.lookup k.toList kvs
    let uid ← g "uid"
    let typ ← g "type"
    let desc ← g "description"
    let eff ← (match g "effect" with | some (.bool b) => some b | _ => Option.none)
    let ctx ← g "context"
    let rows := fun (k : String) => match g k with
      | some (.list xs) => Vakt.RuleCodec.mapOpt elemRowOfVal xs
      | _ => Option.none
    let s ← rows "subjects"
    let r ← rows "resources"
    let a ← rows "actions"
    pure { uid := uid, typ := typ, description := desc, effect := eff, context := ctx, subjects := s, resources := r, actions := a }
  | _ => Option.none


/-! ## the server-side regex search used by the MongoDB >= 4.2 prefilter, built from the stored elements -/
inductive RxKind where
  | anchored (r : Vakt.Re)      -- a compiled text `^…$`: the segments' regular expressions between escaped literals
  | plain (r : Vakt.Re)         -- a literal element used as a regular expression as it is
  | invalid
  | unmodelled

def searchAny (r : Vakt.Re) (w : List Char) : Bool :=
  (List.range (w.length + 1)).any (fun i => r.matchesPrefix (w.drop i))

open Vakt.StorageCodec in
def rxOfElem (p : Policy) : Elem → Option (List Char × RxKind)
  | .str s =>
    if hasTags p s then
      (match Vakt.TagParser.scan p.stag p.etag s with
       | Option.none => Option.none
       | some ps =>
         match Vakt.piecesRe ps with
         | .ok r _ => some ('^' :: patternOfPieces ps ++ ['$'], .anchored r)
         | .invalid => Option.none
         | .unsupported => some ([], .unmodelled))
    else if !CharTable.allKnown s then some (s, .unmodelled)
    else
      (match Vakt.parsePattern s with
       | .ok r _ => some (s, .plain r)
       | .invalid => some (s, .invalid)
       | .unsupported => some (s, .unmodelled))
  | _ => Option.none

def rxTable (ps : List Policy) : List (List Char × RxKind) :=
  ps.flatMap (fun p => (p.actions ++ p.subjects ++ p.resources).filterMap (rxOfElem p))

def mkSearch (tbl : List (List Char × RxKind)) : Vakt.MongoRegex.Search := fun rx v =>
  match tbl.find? (fun kv => kv.1 == rx) with
  | some (_, .anchored r) => some (r.acceptsDollar v)
  | some (_, .plain r) => some (searchAny r v)
  | _ => Option.none

def pStoreAns : P StoreAns
  | "AR" :: ts => some (.raises, ts)
  | "AN" :: ts => some (.nothing, ts)
  | "AI" :: ts => do
    let (ps, ts) ← pCounted pPolicy ts
    match ts with
    | "-" :: ts => pure (.items ps none, ts)
    | _ => do let (n, ts) ← pNat ts; pure (.items ps (some n), ts)
  | _ => none

def ansPolicies : StoreAns → List Policy
  | .items xs _ => xs
  | _ => []

open Vakt.PolicyObj in
def pAssign : P Assign
  | name :: vid :: fv :: d :: ts => do
    let v ← vid.toNat?
    let f ← (if fv == "Q" then some FVal.scalar
             else if fv.startsWith "K" then
               (fv.drop 1).toString.toList.foldr (fun c acc => match acc, c with
                 | some ks, 's' => some (EKind.str :: ks)
                 | some ks, 'r' => some (EKind.rule :: ks)
                 | some ks, 'o' => some (EKind.other :: ks)
                 | _, _ => none) (some []) |>.map FVal.seq
             else if fv.startsWith "I" then
               (fv.drop 1).toString.toList.foldr (fun c acc => match acc, c with
                 | some ks, 's' => some (EKind.str :: ks)
                 | some ks, 'r' => some (EKind.rule :: ks)
                 | some ks, 'o' => some (EKind.other :: ks)
                 | _, _ => none) (some []) |>.map FVal.iter
             else none)
    let b ← (if d == "T" then some true else if d == "F" then some false else none)
    pure ({ name := name, vid := v, fv := f, isDict := b }, ts)
  | _ => none

open Vakt.PolicyObj in
def showPObj (o : PObj) : String :=
  let vs := o.vals.toArray.qsort (fun a b => a.1 < b.1) |>.toList
  toString o.typ ++ ";" ++ ",".intercalate (vs.map fun (n, v) => n ++ ":" ++ toString v)

open Vakt.PolicyObj in
def showErr : Err → String
  | .creation => "creation"
  | .typeError => "typeerror"

open Vakt.PolicyObj in
def runPObj (o : PObj) : List Assign → List String
  | [] => []
  | a :: rest =>
    match setattr o a.name a.vid a.fv a.isDict with
    | .ok o' => ("O " ++ showPObj o') :: runPObj o' rest
    | .error e => ("E " ++ showErr e ++ " " ++ showPObj o) :: runPObj o rest

open Vakt.Store in
def pStoreOp : P Op
  | "add" :: ts => do
    let (u, ts) ← pStr ts; let (p, ts) ← pNat ts; let (ok, ts) ← pBool ts; pure (.add u p ok, ts)
  | "upd" :: ts => do
    let (u, ts) ← pStr ts; let (p, ts) ← pNat ts; let (ok, ts) ← pBool ts; pure (.update u p ok, ts)
  | "del" :: ts => do let (u, ts) ← pStr ts; pure (.delete u, ts)
  | "get" :: ts => do let (u, ts) ← pStr ts; pure (.get u, ts)
  | "all" :: l :: o :: ts => do let l ← l.toInt?; let o ← o.toInt?; pure (.getAll l o, ts)
  | "retr" :: b :: ts => do let b ← b.toInt?; pure (.retrieveAll b, ts)
  | "fault" :: ts => pure (.fault, ts)
  | _ => none

open Vakt.Store in
def showSt (l : St) : String := ",".intercalate (l.map fun (u, p) => showStr u ++ ":" ++ toString p)

open Vakt.Store in
def showOut : Out → String
  | .done => "done" | .existsErr => "exists" | .rejected => "rejected" | .valueError => "valueerror"
  | .pol none => "pol -" | .pol (some p) => "pol " ++ toString p
  | .pols l => "pols " ++ showSt l

open Vakt.Store Vakt.Backends in
def showCall : Call → String
  | .dictIn => "in" | .dictSetItem => "setitem" | .dictDelItem => "delitem" | .dictGetItem => "get" | .dictValues => "values"
  | .hsetnx => "hsetnx" | .hget => "hget" | .hgetall => "hgetall" | .hdel => "hdel" | .script => "script"
  | .insertOne => "insert_one" | .findOne => "find_one" | .find => "find" | .updateOne => "update_one"
  | .deleteOne => "delete_one" | .sessAdd => "add" | .sessGet => "get" | .sessQuery => "query" | .sessDelete => "delete"
  | .commit => "commit" | .rollback => "rollback" | .notify => "notify"

open Vakt.Store Vakt.Backends in
/-- run a history through a concrete storage model: every operation's output and the client calls it makes -/
def runBackend {σ : Type} (stepC : σ → Op → σ × Out × List Call) : σ → List Op → σ × List String
  | s, [] => (s, [])
  | s, op :: rest =>
    let r := stepC s op
    let t := runBackend stepC r.1 rest
    (t.1, (showOut r.2.1 ++ " @" ++ ",".intercalate (r.2.2.map showCall)) :: t.2)

/-- the serializer of the protocol: a policy's content id `n` is stored as the one-byte string `[n + 1]` -/
def protoSer : Vakt.Backends.Ser := ⟨fun p => some [p + 1], fun b => b.headD 1 - 1⟩

open Vakt.Store Vakt.Enfold in
def pEOp : P EOp
  | "pop" :: b :: ts => do let b ← b.toNat?; pure (.populate b, ts)
  | ts => do
    let (op, ts) ← pStoreOp ts
    match op with
    | .add u p ok => pure (.add u p ok, ts)
    | .update u p ok => pure (.update u p ok, ts)
    | .delete u => pure (.delete u, ts)
    | .get u => pure (.get u, ts)
    | .getAll l o => pure (.getAll l o, ts)
    | .retrieveAll b => pure (.retrieveAll b, ts)
    | .fault => pure (.fault, ts)

def pBinding : P (List Char × Nat) := fun ts => do
  let (u, ts) ← pStr ts
  let (p, ts) ← pNat ts
  pure ((u, p), ts)

open Vakt.Store Vakt.CachedGuard in
/-- ops: `mut <store op>` | `read` | `ask <key> <T|F>` (the uncached answer at that moment, supplied by the harness) -/
def pCOp : P (COp Nat × Bool)
  | "mut" :: ts => do let (op, ts) ← pStoreOp ts; pure ((.mutate op, false), ts)
  | "read" :: ts => pure ((.read, false), ts)
  | "ask" :: k :: v :: ts => do
    let k ← k.toNat?
    let b ← (if v == "T" then some true else if v == "F" then some false else none)
    pure ((.ask k, b), ts)
  | _ => none

open Vakt.Store Vakt.CachedGuard in
def runCG (cfg : Cfg) (cap : Option Nat) : CG (Vakt.Lru Nat Bool) → List (COp Nat × Bool) → List String
  | _, [] => []
  | g, (op, v) :: rest =>
    let r := CachedGuard.step cfg (fun _ _ => v) (lruBackend cap) g op
    let out := match op, r.2 with
      | .ask _, some a => showB a ++ (if r.1.storageAsks == g.storageAsks then " hit" else " miss")
      | .mutate _, _ => "n" ++ toString r.1.notifications
      | _, _ => "-"
    out :: runCG cfg cap r.1 rest

open Vakt.Migration in
def pMigReq : P (Req × Fault)
  | d :: n :: f :: ts => do
    let dir ← (if d == "U" then some Dir.up else if d == "D" then some Dir.down else none)
    let num ← (if n == "-" then some none else n.toNat?.map some)
    let fault ← (if f == "-" then some Fault.none
                 else if f.startsWith "b" then (f.drop 1).toString.toNat?.map Fault.body
                 else if f.startsWith "s" then (f.drop 1).toString.toNat?.map Fault.save
                 else none)
    pure ((⟨dir, num⟩, fault), ts)
  | _ => none

open Vakt.Migration in
def runMig (orders : List Nat) : MState → List (Req × Fault) → List String
  | _, [] => []
  | st, (r, f) :: rest =>
    let x := request orders st r f
    let newTrace := x.1.trace.drop st.trace.length
    let showT := ",".intercalate (newTrace.map fun (d, n) => (match d with | .up => "U" | .down => "D") ++ toString n)
    ((if x.2 then "R" else "C") ++ " last=" ++ toString x.1.last ++ " schema=" ++
      ",".intercalate ((sortAsc x.1.schema).map toString) ++ " trace=" ++ showT) :: runMig orders x.1 rest

open Vakt.Conc in
def pActs : Nat → Toks → Option (List (Nat × Act))
  | 0, [] => some []
  | 0, _ => none
  | n + 1, t :: a :: ts => do
    let tid ← t.toNat?
    match a with
    | "acq" => (pActs n ts).map ((tid, Act.acq) :: ·)
    | "rel" => (pActs n ts).map ((tid, Act.rel) :: ·)
    | "view" => (pActs n ts).map ((tid, Act.view) :: ·)
    | "next" => (pActs n ts).map ((tid, Act.next) :: ·)
    | "has" => (match ts with | u :: ts' => (pActs n ts').map ((tid, Act.has u.toList) :: ·) | [] => none)
    | "put" => (match ts with | u :: ts' => (pActs n ts').map ((tid, Act.put u.toList) :: ·) | [] => none)
    | "del" => (match ts with | u :: ts' => (pActs n ts').map ((tid, Act.del u.toList) :: ·) | [] => none)
    | "get" => (match ts with | u :: ts' => (pActs n ts').map ((tid, Act.get u.toList) :: ·) | [] => none)
    | _ => none
  | _, _ => none

def handle (toks : List String) : Option String :=
  match toks with
  | "ECHO" :: "val" :: ts => do let v ← full (pVal ts); pure ("ECHO val " ++ showVal v)
  | "ECHO" :: "rule" :: ts => do let r ← full (pRule ts); pure ("ECHO rule " ++ showRule r)
  | "ECHO" :: "pol" :: ts => do let p ← full (pPolicy ts); pure ("ECHO pol " ++ showPolicy p)
  | "ECHO" :: "inq" :: ts => do let q ← full (pInquiry ts); pure ("ECHO inq " ++ showInquiry q)
  | "EVAL" :: ts => do
    let (r, ts) ← pRule ts
    let (w, ts) ← pVal ts
    let q ← full (pOptInquiry ts)
    if !(Modelled.rule r w && Modelled.valKnown w && (q.map Modelled.inquiry).getD true) then pure "unmodelled"
    else pure (showR (r.eval w q))
  | "FITS" :: ts => do
    let (k, ts) ← pChecker ts
    let (p, ts) ← pPolicy ts
    let (f, ts) ← pPolField ts
    let (w, ts) ← pVal ts
    let q ← full (pInquiry ts)
    let dom := Modelled.valKnown w && Modelled.inquiry q &&
      (p.field f).all (Modelled.elem k p.stag p.etag w)
    if !dom then pure "unmodelled" else pure (showR (fits k p f w q))
  | "DECIDE" :: ts => do
    let (k, ts) ← pChecker ts
    let (ans, ts) ← pStoreAns ts
    let q ← full (pInquiry ts)
    let dom := Modelled.inquiry q && (ansPolicies ans).all (fun p => Modelled.policy k p q)
    if !dom then pure "unmodelled" else
    let m := guardMatch k q
    let b := isAllowed m ans
    let au := match auditOf m ans with
      | [a] => " audit " ++ showB a.allow ++ " cand " ++ showUids a.candidates ++ " dec " ++ showUids a.deciders
      | _ => " noaudit"
    pure ("ok " ++ showB b ++ au)
  | "REGEX" :: mode :: ts => do
    let (pat, ts) ← pStr ts
    let w ← full (pStr ts)
    if !(CharTable.allKnown pat && CharTable.allKnown w) then pure "unmodelled" else
    match parsePattern pat with
    | .invalid => pure "invalid"
    | .unsupported => pure "unmodelled"
    | .ok r _ =>
      match mode with
      | "full" => pure ("ok " ++ showB (r.accepts w))
      | "prefix" => pure ("ok " ++ showB (r.matchesPrefix w))
      | "dollar" => pure ("ok " ++ showB (r.acceptsDollar w))
      | _ => none
  | "RENDER" :: cls :: ts => do
    let ps ← full (pCounted pPolicy ts)
    let c ← (match cls with
      | "nop" => some MsgCls.nop | "uid" => some MsgCls.uid | "desc" => some MsgCls.desc
      | "count" => some MsgCls.count | _ => none)
    if ps.any (fun p => (PyVal.pyStr p.uid).isNone || (PyVal.pyStr p.description).isNone) then pure "unmodelled"
    else pure ("ok " ++ showStr (renderMsg c ps))
  | "STORE" :: ts => do
    let (sorted, ts) ← pBool ts
    let (eager, ts) ← pBool ts
    let ops ← full (pCounted pStoreOp ts)
    let r := Vakt.Store.run ⟨sorted, eager⟩ [] ops
    pure (" | ".intercalate (r.2.map showOut) ++ " || " ++ showSt r.1)
  | "BACKEND" :: kind :: ts => do
    let ops ← full (pCounted pStoreOp ts)
    let fin (st : Vakt.Store.St) (outs : List String) (extra : String) : String :=
      " | ".intercalate outs ++ " || " ++ showSt st ++ extra
    match kind with
    | "memory" => let r := runBackend Vakt.Backends.memStep [] ops; pure (fin r.1 r.2 "")
    | "redis" => let r := runBackend (Vakt.Backends.redisStep protoSer) [] ops
                 pure (fin (Vakt.Backends.feed protoSer r.1) r.2 "")
    | "mongo" => let r := runBackend Vakt.Backends.mongoStep [] ops; pure (fin r.1 r.2 "")
    | "sql" => let r := runBackend Vakt.Backends.sqlStep (Vakt.SqlSession.fresh []) ops
               pure (fin r.1.view r.2 (" || " ++ showSt r.1.committed ++ " " ++ showB r.1.dirty))
    | "obs-memory" =>
      let r := runBackend (Vakt.Backends.obsStep Vakt.Backends.memStep) ⟨[], 0⟩ ops
      pure (fin r.1.inner r.2 (" || " ++ toString r.1.notified))
    | "obs-redis" =>
      let r := runBackend (Vakt.Backends.obsStep (Vakt.Backends.redisStep protoSer)) ⟨[], 0⟩ ops
      pure (fin (Vakt.Backends.feed protoSer r.1.inner) r.2 (" || " ++ toString r.1.notified))
    | "obs-mongo" =>
      let r := runBackend (Vakt.Backends.obsStep Vakt.Backends.mongoStep) ⟨[], 0⟩ ops
      pure (fin r.1.inner r.2 (" || " ++ toString r.1.notified))
    | "obs-sql" =>
      let r := runBackend (Vakt.Backends.obsStep Vakt.Backends.sqlStep) ⟨Vakt.SqlSession.fresh [], 0⟩ ops
      pure (fin r.1.inner.view r.2 (" || " ++ toString r.1.notified))
    | _ => none
  | "ENFOLD" :: ts => do
    let (sorted, ts) ← pBool ts
    let (eager, ts) ← pBool ts
    let (init, ts) ← pCounted pBinding ts
    let ops ← full (pCounted pEOp ts)
    let r := Vakt.Enfold.run ⟨sorted, eager⟩ ⟨[], init⟩ ops
    pure (" | ".intercalate (r.2.map fun (o, t) => showOut o ++ " " ++ showB t) ++ " || " ++ showSt r.1.cache ++
      " || " ++ showSt r.1.backend)
  | "CGUARD" :: capTok :: ts => do
    let cap ← (if capTok == "-" then some none else capTok.toNat?.map some)
    let (sorted, ts) ← pBool ts
    let (eager, ts) ← pBool ts
    let ops ← full (pCounted pCOp ts)
    pure (" | ".intercalate (runCG ⟨sorted, eager⟩ cap (Vakt.CachedGuard.initial (Vakt.CachedGuard.lruBackend cap) []) ops))
  | "MIG" :: ts => do
    let (orders, ts) ← pCounted pNat ts
    let reqs ← full (pCounted pMigReq ts)
    pure (" | ".intercalate (runMig orders Vakt.Migration.initial reqs))
  | "INQEQ" :: ts => do
    let (a, ts) ← pInquiry ts
    let b ← full (pInquiry ts)
    if !(Vakt.wf a.canon && Vakt.wf b.canon) then pure "unmodelled" else
    pure ("ok " ++ showB (a.eqv b))
  | "CANON" :: ts => do
    let v ← full (pVal ts)
    pure ("ok " ++ showVal (Vakt.canon v))
  | "RULEENC" :: ts => do
    let r ← full (pRule ts)
    if !(Vakt.RuleCodec.Rule.wf r) then pure "unmodelled" else
    pure ("ok " ++ showVal (Vakt.canon (Vakt.RuleCodec.encRule r)))
  | "RULEDEC" :: ts => do
    let v ← full (pVal ts)
    match Vakt.RuleCodec.decRule 64 v with
    | some r => pure ("ok " ++ showRule r)
    | Option.none => pure "none"
  | "POLDEC" :: ts => do
    let (st, ts) ← pChar ts
    let (et, ts) ← pChar ts
    let v ← full (pVal ts)
    match v with
    | .dict d =>
      (match Vakt.RuleCodec.decPolicy 64 st et d with
       | some p => pure ("ok " ++ showPolicy p)
       | Option.none => pure "none")
    | _ => none
  | "POLENC" :: ts => do
    let p ← full (pPolicy ts)
    if !(Vakt.RuleCodec.Policy.wf p) then pure "unmodelled" else
    pure ("ok " ++ showVal (Vakt.canon (.dict (Vakt.RuleCodec.encPolicy p .none))))
  | "MONGODOC" :: ts => do
    let p ← full (pPolicy ts)
    if !(Vakt.RuleCodec.Policy.wf p && Vakt.StorageCodec.compileModelled p) then pure "unmodelled" else
    match Vakt.StorageCodec.mongoDoc Vakt.StorageCodec.modelCompile p with
    | some d => pure ("ok " ++ showVal (Vakt.canon (.dict d)))
    | Option.none => pure "refused"
  | "MONGOUPD" :: ts => do
    let (p0, ts) ← pPolicy ts
    let p ← full (pPolicy ts)
    if !(Vakt.RuleCodec.Policy.wf p && Vakt.StorageCodec.compileModelled p && Vakt.RuleCodec.Policy.wf p0 &&
         Vakt.StorageCodec.compileModelled p0) then pure "unmodelled" else
    match Vakt.StorageCodec.mongoDoc Vakt.StorageCodec.modelCompile p0, Vakt.StorageCodec.mongoDoc Vakt.StorageCodec.modelCompile p with
    | some d0, some d => pure ("ok " ++ showVal (Vakt.canon (.dict (Vakt.StorageCodec.setAll d d0))))
    | _, _ => pure "refused"
  | "MONGOREAD" :: ts => do
    let (st, ts) ← pChar ts
    let (et, ts) ← pChar ts
    let v ← full (pVal ts)
    match v with
    | .dict d =>
      (match Vakt.StorageCodec.fromMongoDoc 64 st et d with
       | some p => pure ("ok " ++ showPolicy p)
       | Option.none => pure "none")
    | _ => none
  | "SQLROW" :: ts => do
    let p ← full (pPolicy ts)
    if !(Vakt.RuleCodec.Policy.wf p && Vakt.StorageCodec.compileModelled p) then pure "unmodelled" else
    if (Vakt.StorageCodec.storedUid p.uid).isNone then pure "unmodelled" else
    match Vakt.StorageCodec.toRow Vakt.StorageCodec.modelCompile p with
    | some r => pure ("ok " ++ showVal (Vakt.canon (rowVal r)))
    | Option.none => pure "refused"
  | "SQLREAD" :: ts => do
    let (st, ts) ← pChar ts
    let (et, ts) ← pChar ts
    let v ← full (pVal ts)
    match rowOfVal v with
    | some r =>
      (match Vakt.StorageCodec.toPolicy 64 st et r with
       | some p => pure ("ok " ++ showPolicy p)
       | Option.none => pure "none")
    | Option.none => none
  | "COMPILE" :: ts => do
    let (s, ts) ← pChar ts
    let (t, ts) ← pChar ts
    let e ← full (pStr ts)
    match Vakt.StorageCodec.compileText s t e with
    | .text x => pure ("ok " ++ showStr x)
    | .raises => pure "raises"
    | .unmodelled => pure "unmodelled"
  | "DECODE" :: ts => do
    let v ← full (pVal ts)
    match v with
    | .dict d =>
      (match Vakt.Serialize.fromDoc d with
       | .error .creation => pure "refused creation"
       | .error .typeError => pure "refused typeerror"
       | .ok r =>
         let keys := match r.context with
           | .list ks => ks.filterMap (fun k => match k with | PyVal.str s => some (String.ofList s) | _ => none)
           | _ => []
         let ks := keys.toArray.qsort (· < ·) |>.toList
         pure ("ok uid=" ++ showVal r.uid ++ " effect=" ++ showVal r.effect ++ " type=" ++
           toString Vakt.Generated.typeStringBased ++ " ctx=" ++ ",".intercalate ks ++ " desc=" ++ showVal r.description))
    | _ => none
  | "LIKE" :: ts => do
    let (pat, ts) ← pStr ts
    let txt ← full (pStr ts)
    pure ("ok " ++ showB (Vakt.SqlQuery.like Vakt.SqlQuery.sqliteCeq Option.none pat txt))
  | "SQLFIND" :: mode :: ts => do
    let (a, ts) ← pStr ts
    let (su, ts) ← pStr ts
    let (r, ts) ← pStr ts
    let ps ← full (pCounted pPolicy ts)
    if ps.any (fun p => !Vakt.StorageCodec.compileModelled p) then pure "unmodelled" else
    match mode with
    | "fuzzy" =>
      pure ("ok " ++ showUids (Vakt.SqlQuery.find
        (fun row => Vakt.SqlQuery.fuzzyCond Vakt.SqlQuery.sqliteCeq Option.none row a su r) Vakt.StorageCodec.modelCompile ps))
    | "regex" =>
      let tbl := rxTable ps
      if tbl.any (fun kv => match kv.2 with | .unmodelled => true | _ => false) then pure "unmodelled" else
      if !(CharTable.allKnown a && CharTable.allKnown su && CharTable.allKnown r) then pure "unmodelled" else
      let search : Vakt.SqlQuery.Search := fun rx v => match mkSearch tbl rx v with | some b => b | Option.none => false
      pure ("ok " ++ showUids (Vakt.SqlQuery.find
        (fun row => Vakt.SqlQuery.regexCond search row a su r) Vakt.StorageCodec.modelCompile ps))
    | _ => none
  | "MFIND" :: ts => do
    let (a, ts) ← pStr ts
    let (su, ts) ← pStr ts
    let (r, ts) ← pStr ts
    let ps ← full (pCounted pPolicy ts)
    let tbl := rxTable ps
    if tbl.any (fun kv => match kv.2 with | .unmodelled => true | _ => false) then pure "unmodelled" else
    if !(CharTable.allKnown a && CharTable.allKnown su && CharTable.allKnown r) then pure "unmodelled" else
    match Vakt.MongoRegex.find (mkSearch tbl) Vakt.StorageCodec.modelCompile a su r ps with
    | some cs => pure ("ok " ++ showUids cs)
    | Option.none => pure "fails"
  | "CAND" :: bk :: ts => do
    let b ← (match bk with
      | "all" => some Vakt.Prefilter.Backend.all | "type" => some Vakt.Prefilter.Backend.typeOnly
      | "query" => some Vakt.Prefilter.Backend.query | _ => none)
    let (k, ts) ← pChecker ts
    let (p, ts) ← pPolicy ts
    let q ← full (pInquiry ts)
    pure ("ok " ++ showB (Vakt.Prefilter.candidate b k p q))
  | "MIGDOC" :: "m4up" :: ts => do
    let v ← full (pVal ts)
    match v with
    | .dict d =>
      (match Vakt.StorageCodec.fromMongoDoc 64 '<' '>' d with
       | Option.none => pure "unmodelled"
       | some p =>
         if !(Vakt.RuleCodec.Policy.wf p && Vakt.StorageCodec.compileModelled p) then pure "unmodelled" else
         match Vakt.StorageCodec.mongoDoc Vakt.StorageCodec.modelCompile p with
         | some nd => pure ("ok " ++ showVal (PyVal.dict (Vakt.StorageCodec.setAll nd d)))
         | Option.none => pure "raises")
    | _ => none
  | "MIGDOC" :: which :: ts => do
    let v ← full (pVal ts)
    let proc ← (match which with
      | "m2up" => some Vakt.MongoMig.m2up | "m2down" => some Vakt.MongoMig.m2down
      | "m3up" => some Vakt.MongoMig.m3up | "m3down" => some Vakt.MongoMig.m3down
      | "m4down" => some Vakt.MongoMig.m4down | _ => none)
    match v with
    | .dict d =>
      (match proc d with
       | .ok d' => pure ("ok " ++ showVal (PyVal.dict d'))
       | .error .irreversible => pure "irreversible"
       | .error .other => pure "other")
    | _ => none
  | "CONC" :: _nthreads :: n :: ts => do
    let n ← n.toNat?
    let acts ← pActs n ts
    match Vakt.Conc.discipline none acts with
    | some none => pure "ok"
    | some (some t) => pure ("ok-lock-left-held-by " ++ toString t)
    | none => pure "violates-lock-discipline"
  | "POBJ" :: ts => do
    let (ctor, ts) ← pCounted pAssign ts
    let steps ← full (pCounted pAssign ts)
    match Vakt.PolicyObj.construct ctor Vakt.PolicyObj.empty with
    | .error e => pure ("ctor-raise " ++ showErr e)
    | .ok o => pure (" | ".intercalate (("ok " ++ showPObj o) :: runPObj o steps))
  | "TAGIDX" :: ts => do
    let (s, ts) ← pChar ts
    let (t, ts) ← pChar ts
    let e ← full (pStr ts)
    match TagParser.tagIndices s t e with
    | none => pure "unbalanced"
    | some ix => pure ("ok " ++ " ".intercalate (ix.map (fun p => toString p.1 ++ " " ++ toString p.2)))
  | "SCAN" :: ts => do
    let (s, ts) ← pChar ts
    let (t, ts) ← pChar ts
    let e ← full (pStr ts)
    match TagParser.scan s t e with
    | none => pure "unbalanced"
    | some ps => pure ("ok " ++ showPieces ps)
  | _ => none

partial def loop (hin hout : IO.FS.Stream) : IO Unit := do
  let line ← hin.getLine
  if line.isEmpty then return ()
  let toks := (line.trimAscii.toString.splitOn " ").filter (· ≠ "")
  let out := match handle toks with
    | some s => s
    | none => "bad-op"
  hout.putStrLn out
  loop hin hout

def main : IO Unit := do
  let hin ← IO.getStdin
  let hout ← IO.getStdout
  loop hin hout
  hout.flush
