import Driver.Proto
import Driver.Modelled
import Model.Audit
/-!
# `vaktdrv`: one case per line in, one result per line out
-/
open Vakt Vakt.Proto

def full {α : Type} : Option (α × Toks) → Option α
  | some (a, []) => some a
  | _ => none

def showR : R → String
  | .ok true => "ok T"
  | .ok false => "ok F"
  | .error _ => "raise"

def showUids (ps : List Policy) : String := showCounted (ps.map (fun p => showVal p.uid))

def showPieces (ps : List Piece) : String :=
  showCounted (ps.map fun | .lit l => "lit " ++ showStr l | .seg s => "seg " ++ showStr s)

def pStoreAns : P StoreAns
  | "AR" :: ts => some (.raises, ts)
  | "AN" :: ts => some (.nothing, ts)
  | "AI" :: ts => do
    let (ps, ts) ← pCounted pPolicy ts
    match ts with
    | "-" :: ts => pure (.items ps none, ts)
    | _ => do let (n, ts) ← pNat ts; pure (.items ps (some n), ts)
  | _ => none

def ansPolicies : StoreAns → List Policy
  | .items xs _ => xs
  | _ => []

def handle (toks : List String) : Option String :=
  match toks with
  | "ECHO" :: "val" :: ts => do let v ← full (pVal ts); pure ("ECHO val " ++ showVal v)
  | "ECHO" :: "rule" :: ts => do let r ← full (pRule ts); pure ("ECHO rule " ++ showRule r)
  | "ECHO" :: "pol" :: ts => do let p ← full (pPolicy ts); pure ("ECHO pol " ++ showPolicy p)
  | "ECHO" :: "inq" :: ts => do let q ← full (pInquiry ts); pure ("ECHO inq " ++ showInquiry q)
  | "EVAL" :: ts => do
    let (r, ts) ← pRule ts
    let (w, ts) ← pVal ts
    let q ← full (pOptInquiry ts)
    if !(Modelled.rule r w && Modelled.valKnown w && (q.map Modelled.inquiry).getD true) then pure "unmodelled"
    else pure (showR (r.eval w q))
  | "FITS" :: ts => do
    let (k, ts) ← pChecker ts
    let (p, ts) ← pPolicy ts
    let (f, ts) ← pPolField ts
    let (w, ts) ← pVal ts
    let q ← full (pInquiry ts)
    let dom := Modelled.valKnown w && Modelled.inquiry q &&
      (p.field f).all (Modelled.elem k p.stag p.etag w)
    if !dom then pure "unmodelled" else pure (showR (fits k p f w q))
  | "DECIDE" :: ts => do
    let (k, ts) ← pChecker ts
    let (ans, ts) ← pStoreAns ts
    let q ← full (pInquiry ts)
    let dom := Modelled.inquiry q && (ansPolicies ans).all (fun p => Modelled.policy k p q)
    if !dom then pure "unmodelled" else
    let m := guardMatch k q
    let b := isAllowed m ans
    let au := match auditOf m ans with
      | [a] => " audit " ++ showB a.allow ++ " cand " ++ showUids a.candidates ++ " dec " ++ showUids a.deciders
      | _ => " noaudit"
    pure ("ok " ++ showB b ++ au)
  | "REGEX" :: mode :: ts => do
    let (pat, ts) ← pStr ts
    let w ← full (pStr ts)
    if !(CharTable.allKnown pat && CharTable.allKnown w) then pure "unmodelled" else
    match parsePattern pat with
    | .invalid => pure "invalid"
    | .unsupported => pure "unmodelled"
    | .ok r _ =>
      match mode with
      | "full" => pure ("ok " ++ showB (r.accepts w))
      | "prefix" => pure ("ok " ++ showB (r.matchesPrefix w))
      | "dollar" => pure ("ok " ++ showB (r.acceptsDollar w))
      | _ => none
  | "RENDER" :: cls :: ts => do
    let ps ← full (pCounted pPolicy ts)
    let c ← (match cls with
      | "nop" => some MsgCls.nop | "uid" => some MsgCls.uid | "desc" => some MsgCls.desc
      | "count" => some MsgCls.count | _ => none)
    if ps.any (fun p => (PyVal.pyStr p.uid).isNone || (PyVal.pyStr p.description).isNone) then pure "unmodelled"
    else pure ("ok " ++ showStr (renderMsg c ps))
  | "SCAN" :: ts => do
    let (s, ts) ← pChar ts
    let (t, ts) ← pChar ts
    let e ← full (pStr ts)
    match TagParser.scan s t e with
    | none => pure "unbalanced"
    | some ps => pure ("ok " ++ showPieces ps)
  | _ => none

partial def loop (hin hout : IO.FS.Stream) : IO Unit := do
  let line ← hin.getLine
  if line.isEmpty then return ()
  let toks := (line.trimAscii.toString.splitOn " ").filter (· ≠ "")
  let out := match handle toks with
    | some s => s
    | none => "bad-op"
  hout.putStrLn out
  loop hin hout

def main : IO Unit := do
  let hin ← IO.getStdin
  let hout ← IO.getStdout
  loop hin hout
  hout.flush
