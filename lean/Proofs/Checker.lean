import Model.Checker
import Proofs.Regex
/-!
# The regex of a compiled element denotes "split into literals and segment words"
-/
namespace Vakt
open Re

theorem lang_eps_iff (w : List Char) : Lang .eps w ↔ w = [] := by
  constructor
  · intro h; cases h; rfl
  · rintro rfl; exact Lang.eps

theorem lang_cat_iff (a b : Re) (w : List Char) :
    Lang (.cat a b) w ↔ ∃ u v, w = u ++ v ∧ Lang a u ∧ Lang b v := by
  constructor
  · intro h; cases h with | cat h1 h2 => exact ⟨_, _, rfl, h1, h2⟩
  · rintro ⟨u, v, rfl, h1, h2⟩; exact Lang.cat h1 h2

theorem lang_ch_iff (c : Char) (w : List Char) : Lang (.set ⟨false, [.ch c]⟩) w ↔ w = [c] := by
  constructor
  · intro h
    cases h with
    | set hp =>
      simp [CClass.test, CItem.test] at hp
      subst hp; rfl
  · rintro rfl
    exact Lang.set (by simp [CClass.test, CItem.test])

/-- a literal matches exactly itself -/
theorem lang_lit_iff (l w : List Char) : Lang (Re.lit l) w ↔ w = l := by
  induction l generalizing w with
  | nil => simp [Re.lit, lang_eps_iff]
  | cons c cs ih =>
    simp only [Re.lit, lang_cat_iff, lang_ch_iff, ih]
    constructor
    · rintro ⟨u, v, rfl, rfl, rfl⟩; rfl
    · rintro rfl; exact ⟨[c], cs, rfl, rfl, rfl⟩

/-- what one piece contributes: a literal is itself, a segment is any word of its regular expression -/
def PieceWord : Piece → List Char → Prop
  | .lit l, u => u = l
  | .seg x, u => ∃ rx rest, parsePattern x = .ok rx rest ∧ Lang rx u

/-- the value splits, in order, into words contributed by the pieces, nothing left over -/
inductive PiecesMatch : List Piece → List Char → Prop
  | nil : PiecesMatch [] []
  | cons {p : Piece} {ps : List Piece} {u v : List Char} :
      PieceWord p u → PiecesMatch ps v → PiecesMatch (p :: ps) (u ++ v)

theorem piecesMatch_cons_iff (p : Piece) (ps : List Piece) (w : List Char) :
    PiecesMatch (p :: ps) w ↔ ∃ u v, w = u ++ v ∧ PieceWord p u ∧ PiecesMatch ps v := by
  constructor
  · intro h; cases h with | cons h1 h2 => exact ⟨_, _, rfl, h1, h2⟩
  · rintro ⟨u, v, rfl, h1, h2⟩; exact PiecesMatch.cons h1 h2

theorem piecesRe_lang (ps : List Piece) :
    ∀ r rest, piecesRe ps = .ok r rest → ∀ w, Lang r w ↔ PiecesMatch ps w := by
  induction ps with
  | nil =>
    intro r rest h w
    simp only [piecesRe, ParseRes.ok.injEq] at h
    obtain ⟨rfl, _⟩ := h
    rw [lang_eps_iff]
    constructor
    · rintro rfl; exact PiecesMatch.nil
    · intro hf; cases hf; rfl
  | cons p ps ih =>
    intro r rest h w
    rw [piecesMatch_cons_iff]
    cases p with
    | lit l =>
      simp only [piecesRe] at h
      cases hp : piecesRe ps with
      | ok r' rest' =>
        simp only [hp, ParseRes.ok.injEq] at h
        obtain ⟨rfl, _⟩ := h
        rw [lang_cat_iff]
        simp only [lang_lit_iff, ih r' rest' hp, PieceWord]
      | invalid => simp [hp] at h
      | unsupported => simp [hp] at h
    | seg x =>
      simp only [piecesRe] at h
      cases hx : parsePattern x with
      | ok a ra =>
        simp only [hx] at h
        cases hp : piecesRe ps with
        | ok r' rest' =>
          simp only [hp, ParseRes.ok.injEq] at h
          obtain ⟨rfl, _⟩ := h
          rw [lang_cat_iff]
          simp only [ih r' rest' hp, PieceWord, hx, ParseRes.ok.injEq]
          constructor
          · rintro ⟨u, v, rfl, hu, hv⟩
            exact ⟨u, v, rfl, ⟨a, ra, ⟨rfl, rfl⟩, hu⟩, hv⟩
          · rintro ⟨u, v, rfl, ⟨rx, rr, ⟨rfl, rfl⟩, hl⟩, hv⟩
            exact ⟨u, v, rfl, hl, hv⟩
        | invalid => simp [hp] at h
        | unsupported => simp [hp] at h
      | invalid => simp [hx] at h
      | unsupported => simp [hx] at h

end Vakt
