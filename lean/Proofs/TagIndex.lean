import Model.TagParser
/-!
# `get_tag_indices` + slicing computes the scanner's decomposition
-/
namespace Vakt.TagParser

def pfx (phrase : List Char) : List (Nat × Nat) → Nat → List Piece
  | [], _ => []
  | (idx, e) :: rest, endp =>
    Piece.lit (slice phrase endp idx) :: Piece.seg (slice phrase (idx + 1) (e - 1)) :: pfx phrase rest e

def lastEnd : List (Nat × Nat) → Nat → Nat
  | [], endp => endp
  | (_, e) :: rest, _ => lastEnd rest e

theorem piecesFrom_eq (phrase : List Char) : ∀ (ix : List (Nat × Nat)) (endp : Nat),
    piecesFrom phrase ix endp = pfx phrase ix endp ++ [Piece.lit (phrase.drop (lastEnd ix endp))]
  | [], _ => rfl
  | (idx, e) :: rest, endp => by simp [piecesFrom, pfx, lastEnd, piecesFrom_eq phrase rest e]

theorem pfx_append (phrase : List Char) (a b : Nat) : ∀ (ix : List (Nat × Nat)) (endp : Nat),
    pfx phrase (ix ++ [(a, b)]) endp =
      pfx phrase ix endp ++ [Piece.lit (slice phrase (lastEnd ix endp) a), Piece.seg (slice phrase (a + 1) (b - 1))]
  | [], _ => rfl
  | (idx, e) :: rest, endp => by simp [pfx, lastEnd, pfx_append phrase a b rest e]

theorem lastEnd_append (a b : Nat) : ∀ (ix : List (Nat × Nat)) (endp : Nat), lastEnd (ix ++ [(a, b)]) endp = b
  | [], _ => rfl
  | (_, e) :: rest, _ => by simp [lastEnd, lastEnd_append a b rest e]

theorem slice_prefix (pre rest : List Char) (a : Nat) : slice (pre ++ rest) a pre.length = pre.drop a := by
  simp [slice]

/-- what the two scanners know after reading `pre` -/
def Inv (phrase pre : List Char) (level : Nat) (cur : List Char) (accP : List Piece) (idx : Nat)
    (accI : List (Nat × Nat)) : Prop :=
  (level = 0 → accP = pfx phrase accI 0 ∧ cur = pre.drop (lastEnd accI 0) ∧ lastEnd accI 0 ≤ pre.length) ∧
  (0 < level → accP = pfx phrase accI 0 ++ [Piece.lit (slice phrase (lastEnd accI 0) idx)] ∧
      cur = pre.drop (idx + 1) ∧ idx < pre.length ∧ lastEnd accI 0 ≤ idx)

theorem drop_snoc {α : Type} (l : List α) (c : α) (n : Nat) (h : n ≤ l.length) : (l ++ [c]).drop n = l.drop n ++ [c] :=
  List.drop_append_of_le_length h

theorem lockstep (s t : Char) (phrase : List Char) : ∀ (rest pre : List Char), phrase = pre ++ rest →
    ∀ (level : Nat) (cur : List Char) (accP : List Piece) (idx : Nat) (accI : List (Nat × Nat)),
      Inv phrase pre level cur accP idx accI →
      (tagIdxAux s t rest pre.length idx level accI).map (fun ix => piecesFrom phrase ix 0) =
        scanAux s t rest level cur accP := by
  intro rest
  induction rest with
  | nil =>
    intro pre hp level cur accP idx accI hinv
    simp only [List.append_nil] at hp
    subst hp
    cases level with
    | zero =>
      obtain ⟨h1, h2, _⟩ := hinv.1 rfl
      simp only [tagIdxAux, scanAux, Option.map_some, piecesFrom_eq, h1, h2]
    | succ n => simp only [tagIdxAux, scanAux, Option.map_none]
  | cons c cs ih =>
    intro pre hp level cur accP idx accI hinv
    have hp' : phrase = (pre ++ [c]) ++ cs := by simp [hp]
    have hlen : (pre ++ [c]).length = pre.length + 1 := by simp
    have hslice : ∀ a, slice phrase a pre.length = pre.drop a := by
      intro a; rw [hp]; exact slice_prefix pre (c :: cs) a
    cases level with
    | zero =>
      obtain ⟨h1, h2, h3⟩ := hinv.1 rfl
      by_cases hs : c = s
      · -- a segment opens
        simp only [tagIdxAux, scanAux, hs, ↓reduceIte]
        have := ih (pre ++ [s]) (by rw [hp', hs]) 1 [] (accP ++ [Piece.lit cur]) pre.length accI
          ⟨(fun h => by cases h), fun _ => ⟨by rw [h1, h2, hslice], by
            rw [List.drop_of_length_le]; simp, by simp, h3⟩⟩
        simpa [hlen] using this
      · by_cases ht : c = t
        · simp only [tagIdxAux, scanAux, hs, ht, ↓reduceIte, Option.map_none]
          have hts : ¬ t = s := fun e => hs (ht.trans e)
          simp [hts]
        · simp only [tagIdxAux, scanAux, hs, ht, ↓reduceIte]
          have := ih (pre ++ [c]) hp' 0 (cur ++ [c]) accP idx accI
            ⟨fun _ => ⟨h1, by rw [h2, drop_snoc pre c _ h3], by rw [hlen]; omega⟩, fun h => by cases h⟩
          simpa [hlen] using this
    | succ n =>
      obtain ⟨h1, h2, h3, h4⟩ := hinv.2 (Nat.succ_pos n)
      by_cases hs : c = s
      · simp only [tagIdxAux, scanAux, hs, ↓reduceIte, Nat.add_eq_zero_iff, Nat.succ_ne_zero, and_false]
        have := ih (pre ++ [s]) (by rw [hp', hs]) (n + 2) (cur ++ [s]) accP idx accI
          ⟨(fun h => by cases h), fun _ => ⟨h1, by rw [h2, drop_snoc pre s _ (by omega)], by rw [List.length_append]; simp; omega, h4⟩⟩
        simpa [hlen] using this
      · by_cases ht : c = t
        · have hts : ¬ t = s := fun e => hs (ht.trans e)
          cases n with
          | zero =>
            simp only [tagIdxAux, scanAux, hs, ht, hts, ↓reduceIte]
            have := ih (pre ++ [t]) (by rw [hp', ht]) 0 [] (accP ++ [Piece.seg cur]) idx (accI ++ [(idx, pre.length + 1)])
              ⟨fun _ => ⟨by
                  rw [pfx_append, h1, h2]
                  simp only [Nat.add_sub_cancel, hslice, List.append_assoc, List.cons_append, List.nil_append], by
                  rw [lastEnd_append, List.drop_of_length_le]; simp, by rw [lastEnd_append]; simp⟩,
               fun h => by cases h⟩
            simpa [hlen] using this
          | succ m =>
            simp only [tagIdxAux, scanAux, hs, ht, hts, ↓reduceIte, Nat.add_eq_zero_iff, Nat.succ_ne_zero, and_false]
            have := ih (pre ++ [t]) (by rw [hp', ht]) (m + 1) (cur ++ [t]) accP idx accI
              ⟨(fun h => by cases h), fun _ => ⟨h1, by rw [h2, drop_snoc pre t _ (by omega)], by rw [List.length_append]; simp; omega, h4⟩⟩
            simpa [hlen] using this
        · simp only [tagIdxAux, scanAux, hs, ht, ↓reduceIte]
          have := ih (pre ++ [c]) hp' (n + 1) (cur ++ [c]) accP idx accI
            ⟨(fun h => by cases h), fun _ => ⟨h1, by rw [h2, drop_snoc pre c _ (by omega)], by rw [hlen]; omega, h4⟩⟩
          simpa [hlen] using this

/-- **`get_tag_indices` followed by the slicing loop of `compile_regex` computes exactly the
scanner's decomposition** (and fails exactly when the scanner does) -/
theorem scanByIndex_eq_scan (s t : Char) (e : List Char) : scanByIndex s t e = scan s t e := by
  have := lockstep s t e e [] rfl 0 [] [] 0 []
    ⟨fun _ => ⟨rfl, rfl, Nat.le_refl _⟩, fun h => by cases h⟩
  simpa [scanByIndex, tagIndices, scan] using this

end Vakt.TagParser
