import Model.Cache
/-!
# A cache that only ever stores `f k` under `k` is transparent, for every capacity and history
-/
namespace Vakt.Lru
variable {κ ν : Type} [DecidableEq κ]

/-- every stored entry is the wrapped function's value for its key -/
def Inv (f : κ → ν) (c : Lru κ ν) : Prop := ∀ k v, (k, v) ∈ c.entries → v = f k

theorem find_mem {k : κ} {v : ν} {l : List (κ × ν)} (h : find k l = some v) : (k, v) ∈ l := by
  induction l with
  | nil => simp [find] at h
  | cons p rest ih =>
    obtain ⟨k', v'⟩ := p
    simp only [find] at h
    split at h
    · rename_i hk; simp at h; subst hk; subst h; simp
    · exact List.mem_cons_of_mem _ (ih h)

theorem mem_remove {k k0 : κ} {v : ν} {l : List (κ × ν)} (h : (k, v) ∈ remove k0 l) : (k, v) ∈ l := by
  induction l with
  | nil => simp [remove] at h
  | cons p rest ih =>
    obtain ⟨k', v'⟩ := p
    simp only [remove] at h
    split at h
    · exact List.mem_cons_of_mem _ h
    · rcases List.mem_cons.1 h with h | h
      · rw [h]; simp
      · exact List.mem_cons_of_mem _ (ih h)

theorem mem_trim {cap : Option Nat} {p : κ × ν} {l : List (κ × ν)} (h : p ∈ trim cap l) : p ∈ l := by
  cases cap with
  | none => simpa [trim] using h
  | some n => exact List.mem_of_mem_take (by simpa [trim] using h)

theorem call_transparent (f : κ → ν) (keep : ν → Bool) (c : Lru κ ν) (k : κ) (h : Inv f c) :
    (c.call f keep k).1 = f k ∧ Inv f (c.call f keep k).2.2 := by
  unfold call
  split
  · exact ⟨rfl, h⟩
  · split
    · rename_i v hv
      have hm := find_mem hv
      refine ⟨h k v hm, ?_⟩
      intro k1 v1 hmem
      simp only at hmem
      rcases List.mem_cons.1 hmem with e | e
      · cases e; exact h k v hm
      · exact h k1 v1 (mem_remove e)
    · refine ⟨rfl, ?_⟩
      simp only
      split
      · intro k1 v1 hmem
        simp only at hmem
        have := mem_trim hmem
        rcases List.mem_cons.1 this with e | e
        · cases e; rfl
        · exact h k1 v1 e
      · exact h

/-- all answers of any call history equal the uncached function, whatever the capacity -/
theorem run_transparent (f : κ → ν) (keep : ν → Bool) (ks : List κ) :
    ∀ c : Lru κ ν, Inv f c → (run f keep c ks).1 = ks.map f ∧ Inv f (run f keep c ks).2 := by
  induction ks with
  | nil => intro c h; exact ⟨by simp [run], by simpa [run] using h⟩
  | cons k ks ih =>
    intro c h
    have := call_transparent f keep c k h
    have ih' := ih _ this.2
    exact ⟨by simp [run, this.1, ih'.1], by simpa [run] using ih'.2⟩

theorem inv_empty (f : κ → ν) (cap : Option Nat) : Inv f (empty cap : Lru κ ν) := by
  intro k v h; simp [empty] at h

theorem inv_clear (g : κ → ν) (c : Lru κ ν) : Inv g c.clear := by
  intro k v h; simp [clear] at h

theorem find_cons_self (k : κ) (v : ν) (l : List (κ × ν)) : find k ((k, v) :: l) = some v := by
  simp [find]

/-- an immediate repeat is answered from the cache whenever the capacity is not 0 and the result was kept -/
theorem repeat_hit (f : κ → ν) (keep : ν → Bool) (c : Lru κ ν) (k : κ) (hc : c.cap ≠ some 0)
    (hk : keep (f k) = true) :
    ((c.call f keep k).2.2.call f keep k).2.1 = false := by
  have step : ∀ c' : Lru κ ν, c'.cap = c.cap → (∃ v, find k c'.entries = some v) →
      (c'.call f keep k).2.1 = false := by
    intro c' hcap ⟨v, hv⟩
    unfold call
    split
    · rename_i h0; rw [hcap] at h0; exact absurd h0 hc
    · simp [hv]
  apply step
  · unfold call
    split
    · rfl
    · split
      · rfl
      · simp only; split <;> rfl
  · unfold call
    split
    · rename_i h0; exact absurd h0 hc
    · split
      · rename_i v hv; exact ⟨v, by simp [find]⟩
      · simp only [hk, ↓reduceIte]
        cases hcc : c.cap with
        | none => exact ⟨f k, by simp [trim, find]⟩
        | some n =>
          cases n with
          | zero => exact absurd hcc hc
          | succ m => exact ⟨f k, by simp [trim, find]⟩

end Vakt.Lru
