import Model.Migration
import Proofs.Migration
/-!
# A full `up` followed by a full `down` removes every schema effect
-/
namespace Vakt.Migration

theorem mem_insertSorted {x y : Nat} {s : List Nat} : x ∈ insertSorted y s ↔ x = y ∨ x ∈ s := by
  induction s with
  | nil => simp [insertSorted]
  | cons b u ih =>
    simp only [insertSorted]
    split
    · simp
    · simp only [List.mem_cons, ih]
      constructor
      · rintro (h | h | h)
        · exact Or.inr (Or.inl h)
        · exact Or.inl h
        · exact Or.inr (Or.inr h)
      · rintro (h | h | h)
        · exact Or.inr (Or.inl h)
        · exact Or.inl h
        · exact Or.inr (Or.inr h)

theorem mem_sortAsc {x : Nat} {l : List Nat} : x ∈ sortAsc l ↔ x ∈ l := by
  induction l with
  | nil => simp [sortAsc]
  | cons a t ih => simp only [sortAsc, mem_insertSorted, ih, List.mem_cons]

theorem insertSorted_sorted {y : Nat} {s : List Nat} (h : s.Pairwise (· ≤ ·)) :
    (insertSorted y s).Pairwise (· ≤ ·) := by
  induction s with
  | nil => simp [insertSorted]
  | cons b u ih =>
    simp only [insertSorted]
    have hb := List.pairwise_cons.1 h
    split
    · rename_i hle
      refine List.pairwise_cons.2 ⟨fun z hz => ?_, h⟩
      rcases List.mem_cons.1 hz with rfl | hz
      · exact hle
      · exact Nat.le_trans hle (hb.1 z hz)
    · rename_i hnle
      refine List.pairwise_cons.2 ⟨fun z hz => ?_, ih hb.2⟩
      rcases mem_insertSorted.1 hz with rfl | hz
      · omega
      · exact hb.1 z hz

theorem sortAsc_sorted (l : List Nat) : (sortAsc l).Pairwise (· ≤ ·) := by
  induction l with
  | nil => simp [sortAsc]
  | cons a t ih => exact insertSorted_sorted ih

theorem mem_delSchema {x n : Nat} {s : List Nat} : x ∈ delSchema n s ↔ x ∈ s ∧ x ≠ n := by
  simp [delSchema]

theorem mem_addSchema {x n : Nat} {s : List Nat} (h : x ∈ addSchema n s) : x = n ∨ x ∈ s := by
  unfold addSchema at h
  split at h
  · exact Or.inr h
  · rcases List.mem_append.1 h with h | h
    · exact Or.inr h
    · exact Or.inl (by simpa using h)

/-- an `up` run adds nothing but the listed migrations -/
theorem loop_up_schema_sub (ms : List Nat) : ∀ k st x, x ∈ (loop .up .none ms k st).1.schema →
    x ∈ st.schema ∨ x ∈ ms := by
  induction ms with
  | nil => intro k st x h; exact Or.inl h
  | cons n rest ih =>
    intro k st x h
    rw [loop_cons] at h
    simp only [reduceCtorEq, ↓reduceIte] at h
    split at h
    · rcases ih k st x h with h | h
      · exact Or.inl h
      · exact Or.inr (List.mem_cons_of_mem _ h)
    · rcases ih _ _ x h with h | h
      · rcases mem_addSchema (by simpa [applyStep] using h) with rfl | h
        · exact Or.inr (List.mem_cons_self ..)
        · exact Or.inl h
      · exact Or.inr (List.mem_cons_of_mem _ h)

/-- a `down` run over a descending list removes every listed migration that was applied -/
theorem loop_down_schema (ms : List Nat) (hdesc : ms.Pairwise (· ≥ ·)) : ∀ k st,
    (∀ m ∈ ms, m ≤ st.last ∨ m ∉ st.schema) →
    ∀ x, x ∈ (loop .down .none ms k st).1.schema → x ∈ st.schema ∧ x ∉ ms := by
  induction ms with
  | nil => intro k st _ x h; exact ⟨h, by simp⟩
  | cons n rest ih =>
    have hd := List.pairwise_cons.1 hdesc
    intro k st hinv x h
    rw [loop_cons] at h
    simp only [reduceCtorEq, ↓reduceIte] at h
    split at h
    · rename_i hg
      have hn : n ∉ st.schema := by
        rcases hinv n (List.mem_cons_self ..) with hle | hnot
        · simp [gatedB] at hg; omega
        · exact hnot
      have := ih hd.2 k st (fun m hm => hinv m (List.mem_cons_of_mem _ hm)) x h
      refine ⟨this.1, ?_⟩
      simp only [List.mem_cons, not_or]
      exact ⟨fun e => hn (e ▸ this.1), this.2⟩
    · have hinv' : ∀ m ∈ rest, m ≤ (applyStep .down n st).last ∨ m ∉ (applyStep .down n st).schema := by
        intro m hm
        have hle : n ≥ m := hd.1 m hm
        by_cases he : m = n
        · right; simp [applyStep, mem_delSchema, he]
        · left; simp only [applyStep]; omega
      have := ih hd.2 (k + 1) (applyStep .down n st) hinv' x h
      have hx := mem_delSchema.1 (by simpa [applyStep] using this.1)
      refine ⟨hx.1, ?_⟩
      simp only [List.mem_cons, not_or]
      exact ⟨hx.2, this.2⟩

end Vakt.Migration
