import Model.Migration
namespace Vakt.Migration

/-- what later requests can observe of a state: the recorded version and the schema -/
def core (st : MState) : Nat × List Nat := (st.last, st.schema)

/-- a migration that the gate will skip at recorded version `last` -/
def dead (d : Dir) (n last : Nat) : Prop := match d with | .up => n ≤ last | .down => last < n

/-- the recorded version only moves in the direction of the request -/
def mono (d : Dir) (a b : Nat) : Prop := match d with | .up => a ≤ b | .down => b ≤ a

theorem mono_refl (d : Dir) (a : Nat) : mono d a a := by cases d <;> simp [mono]

theorem mono_trans {d : Dir} {a b c : Nat} (h1 : mono d a b) (h2 : mono d b c) : mono d a c := by
  cases d <;> simp only [mono] at * <;> omega

theorem dead_mono {d : Dir} {n a b : Nat} (h : dead d n a) (hm : mono d a b) : dead d n b := by
  cases d <;> simp only [dead, mono] at * <;> omega

def gatedB (d : Dir) (n last : Nat) : Bool := match d with | .up => decide (last < n) | .down => decide (n ≤ last)

theorem gatedB_false_iff (d : Dir) (n last : Nat) : gatedB d n last = false ↔ dead d n last := by
  cases d <;> simp [gatedB, dead]

def applyStep (d : Dir) (n : Nat) (st : MState) : MState :=
  { last := (match d with | .up => n | .down => n - 1),
    schema := (match d with | .up => addSchema n st.schema | .down => delSchema n st.schema),
    trace := st.trace ++ [(d, n)] }

theorem loop_cons (d : Dir) (f : Fault) (n : Nat) (rest : List Nat) (k : Nat) (st : MState) :
    loop d f (n :: rest) k st =
      if gatedB d n st.last = false then loop d f rest k st
      else if f = .body k then ({ st with trace := st.trace ++ [(d, n)] }, true)
      else if f = .save k then ({ (applyStep d n st) with last := st.last }, true)
      else loop d f rest (k + 1) (applyStep d n st) := by
  cases d <;> simp [loop, gatedB, applyStep] <;> rfl

theorem applyStep_mono (d : Dir) (n : Nat) (st : MState) (hn : 0 < n) (hg : gatedB d n st.last = true) :
    mono d st.last (applyStep d n st).last ∧ dead d n (applyStep d n st).last := by
  cases d <;> simp only [gatedB, decide_eq_true_eq] at hg <;> simp only [mono, dead, applyStep] <;> omega

/-- without a fault the step counter is irrelevant -/
theorem loop_none_k (d : Dir) (ms : List Nat) : ∀ k k' st, loop d .none ms k st = loop d .none ms k' st := by
  induction ms with
  | nil => intro k k' st; rfl
  | cons n rest ih =>
    intro k k' st
    rw [loop_cons, loop_cons]
    simp only [reduceCtorEq, ↓reduceIte]
    split
    · exact ih k k' st
    · exact ih _ _ _

/-- the evolution depends on the state only through its core -/
theorem loop_none_core (d : Dir) (ms : List Nat) : ∀ k st st', core st = core st' →
    core (loop d .none ms k st).1 = core (loop d .none ms k st').1 ∧
    (loop d .none ms k st).2 = (loop d .none ms k st').2 := by
  induction ms with
  | nil => intro k st st' h; exact ⟨h, rfl⟩
  | cons n rest ih =>
    intro k st st' h
    have hl : st.last = st'.last := congrArg Prod.fst h
    have hs : st.schema = st'.schema := congrArg Prod.snd h
    rw [loop_cons, loop_cons]
    simp only [reduceCtorEq, ↓reduceIte, hl]
    split
    · exact ih k st st' h
    · apply ih
      simp [core, applyStep, hs]

theorem loop_none_not_raised (d : Dir) (ms : List Nat) : ∀ k st, (loop d .none ms k st).2 = false := by
  induction ms with
  | nil => intro k st; rfl
  | cons n rest ih =>
    intro k st
    rw [loop_cons]; simp only [reduceCtorEq, ↓reduceIte]
    split <;> exact ih _ _

/-- an unfaulted run moves the version monotonically and leaves every listed migration dead -/
theorem loop_none_dead (d : Dir) (ms : List Nat) (hpos : ∀ m ∈ ms, 0 < m) : ∀ k st,
    mono d st.last (loop d .none ms k st).1.last ∧ ∀ m ∈ ms, dead d m (loop d .none ms k st).1.last := by
  induction ms with
  | nil => intro k st; exact ⟨mono_refl d _, fun m hm => by simp at hm⟩
  | cons n rest ih =>
    have ih := ih (fun m hm => hpos m (by simp [hm]))
    intro k st
    rw [loop_cons]; simp only [reduceCtorEq, ↓reduceIte]
    split
    · rename_i hg
      have := ih k st
      refine ⟨this.1, fun m hm => ?_⟩
      rcases List.mem_cons.1 hm with rfl | hm
      · exact dead_mono ((gatedB_false_iff d m st.last).1 hg) this.1
      · exact this.2 m hm
    · rename_i hg
      have hg' : gatedB d n st.last = true := by simpa using hg
      have hs := applyStep_mono d n st (hpos n (by simp)) hg'
      have := ih (k + 1) (applyStep d n st)
      refine ⟨mono_trans hs.1 this.1, fun m hm => ?_⟩
      rcases List.mem_cons.1 hm with rfl | hm
      · exact dead_mono hs.2 this.1
      · exact this.2 m hm

/-- if every listed migration is dead, the request does nothing -/
theorem loop_all_dead (d : Dir) (f : Fault) (ms : List Nat) : ∀ k st, (∀ m ∈ ms, dead d m st.last) →
    loop d f ms k st = (st, false) := by
  induction ms with
  | nil => intro k st _; rfl
  | cons n rest ih =>
    intro k st h
    rw [loop_cons]
    have : gatedB d n st.last = false := (gatedB_false_iff d n st.last).2 (h n (by simp))
    simp only [this, ↓reduceIte]
    exact ih k st (fun m hm => h m (by simp [hm]))

theorem addSchema_idem (n : Nat) (s : List Nat) : addSchema n (addSchema n s) = addSchema n s := by
  by_cases h : s.contains n = true
  · have e : addSchema n s = s := by unfold addSchema; rw [if_pos h]
    rw [e, e]
  · have e : addSchema n s = s ++ [n] := by unfold addSchema; rw [if_neg h]
    rw [e]
    have : (s ++ [n]).contains n = true := by simp
    unfold addSchema; rw [if_pos this]

theorem delSchema_idem (n : Nat) (s : List Nat) : delSchema n (delSchema n s) = delSchema n s := by
  simp [delSchema, List.filter_filter]

/-- resuming: a request interrupted by a fault (in a step body or while recording the version),
then repeated without fault, ends in the same version and schema as the request run without fault -/
theorem loop_resume (d : Dir) (ms : List Nat) (hpos : ∀ m ∈ ms, 0 < m) : ∀ (f : Fault) k st st1,
    loop d f ms k st = (st1, true) →
    mono d st.last st1.last ∧
    core (loop d .none ms 0 st1).1 = core (loop d .none ms 0 st).1 := by
  induction ms with
  | nil => intro f k st st1 h; simp [loop] at h
  | cons n rest ih =>
    have ih := ih (fun m hm => hpos m (by simp [hm]))
    intro f k st st1 h
    rw [loop_cons] at h
    by_cases hg : gatedB d n st.last = false
    · simp only [hg, ↓reduceIte] at h
      obtain ⟨hm, hc⟩ := ih f k st st1 h
      refine ⟨hm, ?_⟩
      have hd1 : gatedB d n st1.last = false :=
        (gatedB_false_iff d n st1.last).2 (dead_mono ((gatedB_false_iff d n st.last).1 hg) hm)
      rw [loop_cons, loop_cons]
      simp only [hd1, hg, ↓reduceIte]
      exact hc
    · have hg' : gatedB d n st.last = true := by simpa using hg
      simp only [hg', Bool.true_eq_false, ↓reduceIte] at h
      by_cases hb : f = .body k
      · simp only [hb, ↓reduceIte, Prod.mk.injEq, and_true] at h
        subst h
        exact ⟨mono_refl d _, (loop_none_core d (n :: rest) 0
          { last := st.last, schema := st.schema, trace := st.trace ++ [(d, n)] } st rfl).1⟩
      · simp only [hb, ↓reduceIte] at h
        by_cases hsv : f = .save k
        · simp only [hsv, ↓reduceIte, Prod.mk.injEq, and_true] at h
          subst h
          refine ⟨mono_refl d _, ?_⟩
          rw [loop_cons, loop_cons]
          simp only [hg', Bool.true_eq_false, ↓reduceIte, reduceCtorEq]
          refine (loop_none_core d rest 1 _ _ ?_).1
          cases d <;> simp [core, applyStep, addSchema_idem, delSchema_idem]
        · simp only [hsv, ↓reduceIte] at h
          obtain ⟨hm, hc⟩ := ih f (k + 1) (applyStep d n st) st1 h
          have hs := applyStep_mono d n st (hpos n (by simp)) hg'
          refine ⟨mono_trans hs.1 hm, ?_⟩
          have hd1 : gatedB d n st1.last = false := (gatedB_false_iff d n st1.last).2 (dead_mono hs.2 hm)
          rw [loop_cons, loop_cons]
          simp only [hd1, hg', Bool.true_eq_false, ↓reduceIte, reduceCtorEq]
          rw [loop_none_k d rest 1 0]
          exact hc

end Vakt.Migration

namespace Vakt.Migration

/-- strictly increasing above `lo` -/
def chainUp (lo : Nat) : List Nat → Prop
  | [] => True
  | n :: r => lo < n ∧ chainUp n r

/-- every element at or below the running bound, which drops to `n - 1` after `n` -/
def chainDown (hi : Nat) : List Nat → Prop
  | [] => True
  | n :: r => n ≤ hi ∧ chainDown (n - 1) r

def chain (d : Dir) (bound : Nat) (l : List Nat) : Prop :=
  match d with | .up => chainUp bound l | .down => chainDown bound l

/-- the invocations made by one request: all in the request's direction, each gated by the version
recorded at that moment -/
theorem loop_trace (d : Dir) (f : Fault) (ms : List Nat) : ∀ k st,
    ∃ new : List Nat, (loop d f ms k st).1.trace = st.trace ++ new.map (fun n => (d, n)) ∧ chain d st.last new ∧
      (∀ n ∈ new, n ∈ ms) := by
  induction ms with
  | nil => intro k st; exact ⟨[], by simp [loop], by cases d <;> simp [chain, chainUp, chainDown], by simp⟩
  | cons n rest ih =>
    intro k st
    rw [loop_cons]
    by_cases hg : gatedB d n st.last = false
    · simp only [hg, ↓reduceIte]
      obtain ⟨new, h1, h2, h3⟩ := ih k st
      exact ⟨new, h1, h2, fun m hm => by simp [h3 m hm]⟩
    · have hg' : gatedB d n st.last = true := by simpa using hg
      have hgate : chain d st.last [n] := by
        cases d <;> simp only [gatedB, decide_eq_true_eq] at hg' <;> simp [chain, chainUp, chainDown, hg']
      simp only [hg', Bool.true_eq_false, ↓reduceIte]
      by_cases hb : f = .body k
      · simp only [hb, ↓reduceIte]
        exact ⟨[n], by simp, hgate, by simp⟩
      · simp only [hb, ↓reduceIte]
        by_cases hs : f = .save k
        · simp only [hs, ↓reduceIte]
          exact ⟨[n], by simp [applyStep], hgate, by simp⟩
        · simp only [hs, ↓reduceIte]
          obtain ⟨new, h1, h2, h3⟩ := ih (k + 1) (applyStep d n st)
          refine ⟨n :: new, ?_, ?_, ?_⟩
          · rw [h1]; simp [applyStep]
          · cases d
            · simp only [chain, chainUp, gatedB, decide_eq_true_eq] at *
              exact ⟨hg', by simpa [applyStep] using h2⟩
            · simp only [chain, chainDown, gatedB, decide_eq_true_eq] at *
              exact ⟨hg', by simpa [applyStep] using h2⟩
          · intro m hm
            rcases List.mem_cons.1 hm with rfl | hm
            · simp
            · simp [h3 m hm]

/-- when a request raises, the migration whose step did not complete is still ahead of the
recorded version: the version never points past an uncompleted step -/
theorem loop_failed_still_gated (d : Dir) (f : Fault) (ms : List Nat) : ∀ k st st1,
    loop d f ms k st = (st1, true) →
    ∃ n, st1.trace.getLast? = some (d, n) ∧ gatedB d n st1.last = true := by
  induction ms with
  | nil => intro k st st1 h; simp [loop] at h
  | cons n rest ih =>
    intro k st st1 h
    rw [loop_cons] at h
    by_cases hg : gatedB d n st.last = false
    · simp only [hg, ↓reduceIte] at h
      exact ih k st st1 h
    · have hg' : gatedB d n st.last = true := by simpa using hg
      simp only [hg', Bool.true_eq_false, ↓reduceIte] at h
      by_cases hb : f = .body k
      · simp only [hb, ↓reduceIte, Prod.mk.injEq, and_true] at h
        subst h
        exact ⟨n, by simp, hg'⟩
      · simp only [hb, ↓reduceIte] at h
        by_cases hs : f = .save k
        · simp only [hs, ↓reduceIte, Prod.mk.injEq, and_true] at h
          subst h
          exact ⟨n, by simp [applyStep], hg'⟩
        · simp only [hs, ↓reduceIte] at h
          exact ih (k + 1) _ st1 h

end Vakt.Migration
