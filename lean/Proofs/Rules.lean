import Model.Rules
/-!
# Helper lemmas for the rule algebra
-/
namespace Vakt
open PyVal

theorem PyVal.isInfix_iff (a b : List Char) : isInfix a b = true ↔ a <:+: b := by
  induction b with
  | nil =>
    cases a with
    | nil => simp [isInfix]
    | cons x xs => simp [isInfix]
  | cons h t ih =>
    cases a with
    | nil => simp [isInfix]
    | cons x xs =>
      simp only [isInfix, Bool.or_eq_true, ih]
      rw [List.infix_cons_iff]
      simp [List.isPrefixOf_iff_prefix]

namespace Rule

theorem evalAll_ok (rs : List Rule) (w : PyVal) (q : Option Inquiry)
    (h : ∀ r ∈ rs, ∃ b, eval r w q = .ok b) :
    ∃ bs, evalAll rs w q = .ok bs ∧ bs.length = rs.length ∧
      (bs.all id = true ↔ ∀ r ∈ rs, eval r w q = .ok true) := by
  induction rs with
  | nil => exact ⟨[], by simp [evalAll]⟩
  | cons r rs ih =>
    obtain ⟨b, hb⟩ := h r (by simp)
    obtain ⟨bs, hbs, hlen, hall⟩ := ih (fun x hx => h x (by simp [hx]))
    refine ⟨b :: bs, by simp [evalAll, hb, hbs], by simp [hlen], ?_⟩
    simp only [List.all_cons, id, Bool.and_eq_true, hall, List.mem_cons, forall_eq_or_imp, hb]
    simp

theorem evalAll_err (rs : List Rule) (w : PyVal) (q : Option Inquiry) :
    (∃ e, evalAll rs w q = .error e) ↔ ∃ r ∈ rs, ∃ e, eval r w q = .error e := by
  induction rs with
  | nil => simp [evalAll]
  | cons r rs ih =>
    simp only [evalAll]
    cases hr : eval r w q with
    | error e => simp; exact Or.inl ⟨e, hr⟩
    | ok b =>
      cases hrs : evalAll rs w q with
      | error e =>
        have := ih.1 (by simp [hrs])
        obtain ⟨x, hx, e', he'⟩ := this
        simp only [List.mem_cons, exists_eq_or_imp, hr]
        simp
        exact ⟨x, hx, e', he'⟩
      | ok bs =>
        have hno : ¬ ∃ r ∈ rs, ∃ e, eval r w q = .error e := by
          intro h; have := ih.2 h; simp [hrs] at this
        simp only [List.mem_cons, exists_eq_or_imp, hr]
        simp
        intro x hx e he
        exact hno ⟨x, hx, e, he⟩

theorem and_ok_iff (rs : List Rule) (w : PyVal) (q : Option Inquiry)
    (h : ∀ r ∈ rs, ∃ b, eval r w q = .ok b) :
    (∃ b, eval (.and rs) w q = .ok b) ∧
    (eval (.and rs) w q = .ok true ↔ rs ≠ [] ∧ ∀ r ∈ rs, eval r w q = .ok true) := by
  obtain ⟨bs, hbs, hlen, hall⟩ := evalAll_ok rs w q h
  simp only [eval, hbs, Except.map]
  refine ⟨⟨_, rfl⟩, ?_⟩
  simp only [Except.ok.injEq, Bool.and_eq_true, Bool.not_eq_true', hall]
  have : bs.isEmpty = false ↔ rs ≠ [] := by
    cases bs <;> cases rs <;> simp_all
  rw [this]

theorem and_raises_iff (rs : List Rule) (w : PyVal) (q : Option Inquiry) :
    (∃ e, eval (.and rs) w q = .error e) ↔ ∃ r ∈ rs, ∃ e, eval r w q = .error e := by
  rw [← evalAll_err]
  simp only [eval]
  cases evalAll rs w q <;> simp [Except.map]

theorem or_ok_true_iff (rs : List Rule) (w : PyVal) (q : Option Inquiry) :
    eval (.or rs) w q = .ok true ↔
      ∃ pre r post, rs = pre ++ r :: post ∧ eval r w q = .ok true ∧ ∀ x ∈ pre, eval x w q = .ok false := by
  simp only [eval]
  induction rs with
  | nil => simp [evalAny]
  | cons r rs ih =>
    simp only [evalAny]
    cases hr : eval r w q with
    | error e =>
      simp only [reduceCtorEq, false_iff]
      rintro ⟨pre, x, post, hsplit, hx, hpre⟩
      cases pre with
      | nil => simp at hsplit; obtain ⟨rfl, _⟩ := hsplit; simp [hr] at hx
      | cons p pre' =>
        simp at hsplit; obtain ⟨rfl, _⟩ := hsplit
        have := hpre r (by simp); simp [hr] at this
    | ok b =>
      cases b with
      | true =>
        simp only [true_iff]
        exact ⟨[], r, rs, rfl, hr, by simp⟩
      | false =>
        simp only [ih]
        constructor
        · rintro ⟨pre, x, post, rfl, hx, hpre⟩
          exact ⟨r :: pre, x, post, rfl, hx, by
            intro y hy
            rcases List.mem_cons.1 hy with rfl | hy
            · exact hr
            · exact hpre y hy⟩
        · rintro ⟨pre, x, post, hsplit, hx, hpre⟩
          cases pre with
          | nil => simp at hsplit; obtain ⟨rfl, _⟩ := hsplit; simp [hr] at hx
          | cons p pre' =>
            simp at hsplit; obtain ⟨rfl, rfl⟩ := hsplit
            exact ⟨pre', x, post, rfl, hx, fun y hy => hpre y (by simp [hy])⟩

theorem and_perm (rs rs' : List Rule) (w : PyVal) (q : Option Inquiry) (hp : rs.Perm rs') :
    eval (.and rs) w q = eval (.and rs') w q := by
  by_cases hraise : ∃ r ∈ rs, ∃ e, eval r w q = .error e
  · have h1 := (and_raises_iff rs w q).2 hraise
    have h2 := (and_raises_iff rs' w q).2 (by
      obtain ⟨r, hr, e, he⟩ := hraise; exact ⟨r, hp.mem_iff.1 hr, e, he⟩)
    obtain ⟨e1, h1⟩ := h1; obtain ⟨e2, h2⟩ := h2
    cases e1; cases e2; rw [h1, h2]
  · have hok : ∀ r ∈ rs, ∃ b, eval r w q = .ok b := by
      intro r hr
      cases h : eval r w q with
      | ok b => exact ⟨b, rfl⟩
      | error e => exact absurd ⟨r, hr, e, h⟩ hraise
    have hok' : ∀ r ∈ rs', ∃ b, eval r w q = .ok b := fun r hr => hok r (hp.mem_iff.2 hr)
    obtain ⟨⟨b1, hb1⟩, hi1⟩ := and_ok_iff rs w q hok
    obtain ⟨⟨b2, hb2⟩, hi2⟩ := and_ok_iff rs' w q hok'
    have hne : rs ≠ [] ↔ rs' ≠ [] := by
      constructor
      · intro h h'; subst h'; exact h (List.Perm.eq_nil hp)
      · intro h h'; subst h'; exact h (List.Perm.eq_nil hp.symm)
    have : eval (.and rs) w q = .ok true ↔ eval (.and rs') w q = .ok true := by
      rw [hi1, hi2, hne]
      constructor
      · rintro ⟨a, b⟩; exact ⟨a, fun r hr => b r (hp.mem_iff.2 hr)⟩
      · rintro ⟨a, b⟩; exact ⟨a, fun r hr => b r (hp.mem_iff.1 hr)⟩
    rw [hb1, hb2] at this ⊢
    cases b1 <;> cases b2 <;> simp_all

theorem evalAny_noraise (rs : List Rule) (w : PyVal) (q : Option Inquiry)
    (h : ∀ r ∈ rs, ∃ b, eval r w q = .ok b) :
    evalAny rs w q = .ok (rs.any (fun r => match eval r w q with | .ok true => true | _ => false)) := by
  induction rs with
  | nil => simp [evalAny]
  | cons r rs ih =>
    obtain ⟨b, hb⟩ := h r (by simp)
    have := ih (fun x hx => h x (by simp [hx]))
    cases b <;> simp [evalAny, hb, this]

theorem or_perm_noraise (rs rs' : List Rule) (w : PyVal) (q : Option Inquiry) (hp : rs.Perm rs')
    (h : ∀ r ∈ rs, ∃ b, eval r w q = .ok b) :
    eval (.or rs) w q = eval (.or rs') w q := by
  have h' : ∀ r ∈ rs', ∃ b, eval r w q = .ok b := fun r hr => h r (hp.mem_iff.2 hr)
  simp only [eval, evalAny_noraise rs w q h, evalAny_noraise rs' w q h']
  congr 1
  exact hp.any_eq

theorem de_morgan (rs : List Rule) (w : PyVal) (q : Option Inquiry) (hne : rs ≠ [])
    (h : ∀ r ∈ rs, ∃ b, eval r w q = .ok b) :
    eval (.not (.and rs)) w q = eval (.or (rs.map .not)) w q := by
  obtain ⟨bs, hbs, hlen, hall⟩ := evalAll_ok rs w q h
  have hmap : ∀ r ∈ rs.map Rule.not, ∃ b, eval r w q = .ok b := by
    intro r hr
    obtain ⟨x, hx, rfl⟩ := List.mem_map.1 hr
    obtain ⟨b, hb⟩ := h x hx
    exact ⟨!b, by simp [eval, hb, Except.map]⟩
  simp only [eval, evalAny_noraise _ w q hmap, hbs, Except.map]
  congr 1
  have hbe : bs.isEmpty = false := by cases bs <;> cases rs <;> simp_all
  simp only [hbe, Bool.not_false, Bool.true_and, List.any_map]
  cases hb : bs.all id with
  | true =>
    have := hall.1 hb
    simp only [Bool.not_true]
    symm
    rw [List.any_eq_false]
    intro r hr
    simp [Function.comp, eval, this r hr, Except.map]
  | false =>
    simp only [Bool.not_false]
    symm
    rw [List.any_eq_true]
    have : ¬ ∀ r ∈ rs, eval r w q = .ok true := fun hh => by simp [hall.2 hh] at hb
    have : ∃ r ∈ rs, eval r w q = .ok false := by
      apply Classical.byContradiction
      intro hcon
      apply this
      intro r hr
      obtain ⟨b, hb'⟩ := h r hr
      cases b with
      | true => exact hb'
      | false => exact absurd ⟨r, hr, hb'⟩ hcon
    obtain ⟨r, hr, hrf⟩ := this
    exact ⟨r, hr, by simp [eval, hrf, Except.map]⟩

end Rule
end Vakt
