import Model.Cache
import Proofs.Cache
/-!
# LRU residency: an entry survives as long as fewer than `cap` distinct other keys are used

`Front k D c`: the cache `c` holds `k`, the entries in front of it (more recently used) have
pairwise different keys, none of them is `k`, and all of them are keyed by members of `D`.
-/
namespace Vakt.Lru
variable {κ ν : Type} [DecidableEq κ]

theorem nodup_subset_length_le {α : Type} [DecidableEq α] :
    ∀ (l D : List α), l.Nodup → (∀ x ∈ l, x ∈ D) → l.length ≤ D.length
  | [], _, _, _ => Nat.zero_le _
  | a :: t, D, hn, hs => by
    have ha : a ∈ D := hs a (List.mem_cons_self ..)
    have hnt := (List.nodup_cons.1 hn)
    have ht : ∀ x ∈ t, x ∈ D.erase a := by
      intro x hx
      have hne : x ≠ a := by intro e; subst e; exact hnt.1 hx
      exact (List.mem_erase_of_ne hne).2 (hs x (List.mem_cons_of_mem _ hx))
    have ih := nodup_subset_length_le t (D.erase a) hnt.2 ht
    have hl := List.length_erase_of_mem ha
    have hpos : 0 < D.length := List.length_pos_of_mem ha
    simp only [List.length_cons]
    omega

def keys (l : List (κ × ν)) : List κ := l.map Prod.fst

theorem find_none_iff {k : κ} {l : List (κ × ν)} : find k l = none ↔ k ∉ keys l := by
  induction l with
  | nil => simp [find, keys]
  | cons p rest ih =>
    obtain ⟨k', v'⟩ := p
    simp only [find, keys, List.map_cons, List.mem_cons, not_or]
    split
    · rename_i h; simp [h]
    · rename_i h; simp only [keys] at ih; rw [ih]; exact ⟨fun hh => ⟨h, hh⟩, fun hh => hh.2⟩

theorem find_append_hit {k : κ} {v : ν} {pre post : List (κ × ν)} (h : k ∉ keys pre) :
    find k (pre ++ (k, v) :: post) = some v := by
  induction pre with
  | nil => simp [find]
  | cons p rest ih =>
    obtain ⟨k', v'⟩ := p
    simp only [keys, List.map_cons, List.mem_cons, not_or] at h
    simp only [List.cons_append, find, h.1, ↓reduceIte]
    exact ih h.2

theorem remove_append_left {k' : κ} {pre post : List (κ × ν)} (h : k' ∈ keys pre) :
    remove k' (pre ++ post) = remove k' pre ++ post := by
  induction pre with
  | nil => simp [keys] at h
  | cons p rest ih =>
    obtain ⟨k0, v0⟩ := p
    simp only [List.cons_append, remove]
    split
    · rfl
    · rename_i hne
      simp only [keys, List.map_cons, List.mem_cons] at h
      rcases h with h | h
      · exact absurd h hne
      · simp only [List.cons_append]; rw [ih h]

theorem remove_append_right {k' : κ} {pre post : List (κ × ν)} (h : k' ∉ keys pre) :
    remove k' (pre ++ post) = pre ++ remove k' post := by
  induction pre with
  | nil => rfl
  | cons p rest ih =>
    obtain ⟨k0, v0⟩ := p
    simp only [keys, List.map_cons, List.mem_cons, not_or] at h
    simp only [List.cons_append, remove, h.1, ↓reduceIte]
    rw [ih h.2]

theorem keys_remove_sub {k' x : κ} {l : List (κ × ν)} (h : x ∈ keys (remove k' l)) : x ∈ keys l := by
  simp only [keys, List.mem_map] at h ⊢
  obtain ⟨⟨a, b⟩, hm, rfl⟩ := h
  exact ⟨(a, b), mem_remove hm, rfl⟩

theorem keys_remove_nodup {k' : κ} {l : List (κ × ν)} (h : (keys l).Nodup) :
    (keys (remove k' l)).Nodup ∧ k' ∉ keys (remove k' l) := by
  induction l with
  | nil => simp [remove, keys]
  | cons p rest ih =>
    obtain ⟨k0, v0⟩ := p
    simp only [keys, List.map_cons, List.nodup_cons] at h
    simp only [remove]
    split
    · rename_i he
      subst he
      exact ⟨h.2, h.1⟩
    · rename_i hne
      have := ih h.2
      refine ⟨?_, ?_⟩
      · simp only [keys, List.map_cons, List.nodup_cons]
        exact ⟨fun hm => h.1 (keys_remove_sub hm), this.1⟩
      · simp only [keys, List.map_cons, List.mem_cons, not_or]
        exact ⟨hne, this.2⟩

/-- `k` is held and everything in front of it is keyed, without repetition, by members of `D` other than `k` -/
def Front (k : κ) (D : List κ) (l : List (κ × ν)) : Prop :=
  ∃ pre v post, l = pre ++ (k, v) :: post ∧ (∀ x ∈ keys pre, x ∈ D) ∧ (keys pre).Nodup ∧ k ∉ keys pre

theorem Front.find {k : κ} {D : List κ} {l : List (κ × ν)} (h : Front k D l) : ∃ v, find k l = some v := by
  obtain ⟨pre, v, post, rfl, _, _, hk⟩ := h
  exact ⟨v, find_append_hit hk⟩

/-- the capacity admits `m` entries in front of one more -/
def Room : Option Nat → Nat → Prop
  | none, _ => True
  | some n, m => m < n

/-- using the held key itself moves it to the front -/
theorem front_touch_self {k : κ} {D : List κ} {l : List (κ × ν)} {v : ν} :
    Front k D ((k, v) :: remove k l) :=
  ⟨[], v, remove k l, rfl, by simp [keys], by simp [keys], by simp [keys]⟩

/-- a hit on another key keeps `k` held -/
theorem front_hit_other {k k' : κ} {D : List κ} {l : List (κ × ν)} {v' : ν} (h : Front k D l)
    (hne : k' ≠ k) (hD : k' ∈ D) : Front k D ((k', v') :: remove k' l) := by
  obtain ⟨pre, v, post, rfl, hsub, hnd, hk⟩ := h
  by_cases hin : k' ∈ keys pre
  · rw [remove_append_left hin]
    have hr := keys_remove_nodup (k' := k') hnd
    refine ⟨(k', v') :: remove k' pre, v, post, rfl, ?_, ?_, ?_⟩
    · intro x hx
      simp only [keys, List.map_cons, List.mem_cons] at hx
      rcases hx with rfl | hx
      · exact hD
      · exact hsub x (keys_remove_sub hx)
    · simp only [keys, List.map_cons, List.nodup_cons]
      exact ⟨hr.2, hr.1⟩
    · simp only [keys, List.map_cons, List.mem_cons, not_or]
      exact ⟨fun e => hne e.symm, fun hm => hk (keys_remove_sub hm)⟩
  · rw [remove_append_right hin]
    have : remove k' ((k, v) :: post) = (k, v) :: remove k' post := by simp [remove, hne]
    rw [this]
    refine ⟨(k', v') :: pre, v, remove k' post, rfl, ?_, ?_, ?_⟩
    · intro x hx
      simp only [keys, List.map_cons, List.mem_cons] at hx
      rcases hx with rfl | hx
      · exact hD
      · exact hsub x hx
    · simp only [keys, List.map_cons, List.nodup_cons]
      exact ⟨hin, hnd⟩
    · simp only [keys, List.map_cons, List.mem_cons, not_or]
      exact ⟨fun e => hne e.symm, hk⟩

/-- a miss on another key (inserted at the front, then trimmed to capacity) keeps `k` held as long as
`D` has fewer members than the capacity -/
theorem front_miss_other {k k' : κ} {D : List κ} {l : List (κ × ν)} {v' : ν} {cap : Option Nat}
    (h : Front k D l) (hne : k' ≠ k) (hD : k' ∈ D) (hmiss : find k' l = none) (hroom : Room cap D.length) :
    Front k D (trim cap ((k', v') :: l)) := by
  obtain ⟨pre, v, post, rfl, hsub, hnd, hk⟩ := h
  have hnotin : k' ∉ keys (pre ++ (k, v) :: post) := find_none_iff.1 hmiss
  have hin : k' ∉ keys pre := by
    intro hm; apply hnotin; simp only [keys, List.map_append, List.mem_append]; exact Or.inl hm
  have hsub' : ∀ x ∈ keys ((k', v') :: pre), x ∈ D := by
    intro x hx
    simp only [keys, List.map_cons, List.mem_cons] at hx
    rcases hx with rfl | hx
    · exact hD
    · exact hsub x hx
  have hnd' : (keys ((k', v') :: pre)).Nodup := by
    simp only [keys, List.map_cons, List.nodup_cons]; exact ⟨hin, hnd⟩
  have hk' : k ∉ keys ((k', v') :: pre) := by
    simp only [keys, List.map_cons, List.mem_cons, not_or]; exact ⟨fun e => hne e.symm, hk⟩
  cases cap with
  | none => exact ⟨(k', v') :: pre, v, post, rfl, hsub', hnd', hk'⟩
  | some n =>
    have hlen : (keys ((k', v') :: pre)).length ≤ D.length := nodup_subset_length_le _ _ hnd' hsub'
    simp only [Room] at hroom
    have hl : ((k', v') :: pre).length < n := by
      simp only [keys, List.length_map] at hlen; omega
    refine ⟨(k', v') :: pre, v, post.take (n - ((k', v') :: pre).length - 1), ?_, hsub', hnd', hk'⟩
    simp only [trim]
    have : (k', v') :: (pre ++ (k, v) :: post) = ((k', v') :: pre) ++ (k, v) :: post := rfl
    rw [this, List.take_append]
    have h1 : List.take n ((k', v') :: pre) = (k', v') :: pre := List.take_of_length_le (Nat.le_of_lt hl)
    rw [h1]
    have h2 : n - ((k', v') :: pre).length = (n - ((k', v') :: pre).length - 1) + 1 := by omega
    rw [h2, List.take_succ_cons]
    simp only [Nat.add_sub_cancel]

end Vakt.Lru
