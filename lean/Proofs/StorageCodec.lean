import Model.StorageCodec
import Proofs.RuleCodec
import Props.C09Codec
/-!
# Lemmas for the storage codecs (Mongo documents, SQL rows)
-/
namespace Vakt.StorageCodec
open Vakt PyVal Serialize RuleCodec

/-! ## key arithmetic: the four added keys differ from the eight policy keys and from each other -/

def polKeys : List (List Char) :=
  ["uid".toList, "type".toList, "subjects".toList, "effect".toList, "resources".toList, "actions".toList,
   "context".toList, "description".toList]

def addedKeys : List (List Char) := [kId, kActionsC, kSubjectsC, kResourcesC]

theorem added_not_pol : ∀ k ∈ addedKeys, polKeys.contains k = false := by decide +kernel

theorem encPolicy_keys (p : Policy) (t : PyVal) : (encPolicy p t).map Prod.fst = polKeys := rfl

/-- the shape of a stored Mongo document: the eight policy fields in writing order, then any of the added keys -/
structure Shape (d : Doc) (p : Policy) (t : PyVal) (extra : Doc) : Prop where
  eq : d = encPolicy p t ++ extra
  keys : ∀ kv ∈ extra, kv.1 ∈ addedKeys

theorem encPolicy_key_ne_added (p : Policy) (t : PyVal) (k : List Char) (hk : k ∈ addedKeys) :
    ∀ kv ∈ encPolicy p t, kv.1 ≠ k := by
  intro kv hkv e
  have h1 : kv.1 ∈ polKeys := by
    rw [← encPolicy_keys p t]; exact List.mem_map_of_mem hkv
  have h2 := added_not_pol k hk
  rw [← e] at h2
  have : polKeys.contains kv.1 = true := List.contains_iff_mem.mpr h1
  rw [this] at h2; cases h2

/-- the predicate `stripMongo` filters with -/
def keep (kv : List Char × PyVal) : Bool := kv.1 != kId && kv.1 != kActionsC && kv.1 != kSubjectsC && kv.1 != kResourcesC

theorem stripMongo_eq_filter (d : Doc) : stripMongo d = d.filter keep := by
  simp only [stripMongo, delKey, List.filter_filter]
  congr 1; funext kv; simp only [keep]
  cases (kv.1 != kId) <;> cases (kv.1 != kActionsC) <;> cases (kv.1 != kSubjectsC) <;> cases (kv.1 != kResourcesC) <;> rfl

theorem keep_added (kv : List Char × PyVal) (h : kv.1 ∈ addedKeys) : keep kv = false := by
  obtain ⟨k, v⟩ := kv
  simp only [addedKeys, List.mem_cons, List.mem_nil_iff, or_false] at h
  rcases h with rfl | rfl | rfl | rfl <;> simp [keep]

theorem keep_pol (p : Policy) (t : PyVal) (kv : List Char × PyVal) (h : kv ∈ encPolicy p t) : keep kv = true := by
  have h1 := encPolicy_key_ne_added p t kId (by simp [addedKeys]) kv h
  have h2 := encPolicy_key_ne_added p t kActionsC (by simp [addedKeys]) kv h
  have h3 := encPolicy_key_ne_added p t kSubjectsC (by simp [addedKeys]) kv h
  have h4 := encPolicy_key_ne_added p t kResourcesC (by simp [addedKeys]) kv h
  simp [keep, h1, h2, h3, h4]

/-- reading strips exactly what storing added -/
theorem stripMongo_shape {d : Doc} {p : Policy} {t : PyVal} {extra : Doc} (h : Shape d p t extra) :
    stripMongo d = encPolicy p t := by
  rw [h.eq, stripMongo_eq_filter, List.filter_append]
  have h1 : (encPolicy p t).filter keep = encPolicy p t := List.filter_eq_self.mpr (keep_pol p t)
  have h2 : extra.filter keep = [] := by
    rw [List.filter_eq_nil_iff]
    intro kv hkv; rw [keep_added kv (h.keys kv hkv)]; exact Bool.false_ne_true
  rw [h1, h2, List.append_nil]

/-! ## `doc[k] = v` on a document of that shape -/

theorem setKey_append_notin (k : List Char) (v : PyVal) (a b : Doc) (h : ∀ kv ∈ a, kv.1 ≠ k) :
    setKey k v (a ++ b) = a ++ setKey k v b := by
  induction a with
  | nil => rfl
  | cons x rest ih =>
    obtain ⟨k', v'⟩ := x
    have hne : ¬ k = k' := fun e => h (k', v') (List.mem_cons_self ..) e.symm
    simp only [List.cons_append, setKey, hne, ↓reduceIte]
    rw [ih (fun kv hkv => h kv (List.mem_cons_of_mem _ hkv))]

theorem setKey_keys (k : List Char) (v : PyVal) (d : Doc) (S : List (List Char)) (hk : k ∈ S)
    (h : ∀ kv ∈ d, kv.1 ∈ S) : ∀ kv ∈ setKey k v d, kv.1 ∈ S := by
  induction d with
  | nil => intro kv hkv; simp only [setKey, List.mem_cons, List.mem_nil_iff, or_false] at hkv; subst hkv; exact hk
  | cons x rest ih =>
    obtain ⟨k', v'⟩ := x
    intro kv hkv
    by_cases e : k = k'
    · simp only [setKey, e, ↓reduceIte, List.mem_cons] at hkv
      rcases hkv with rfl | hkv
      · exact e ▸ hk
      · exact h kv (List.mem_cons_of_mem _ hkv)
    · simp only [setKey, e, ↓reduceIte, List.mem_cons] at hkv
      rcases hkv with rfl | hkv
      · exact h _ (List.mem_cons_self ..)
      · exact ih (fun kv hkv => h kv (List.mem_cons_of_mem _ hkv)) kv hkv

/-- assigning one of the added keys keeps the shape -/
theorem Shape.setAdded {d : Doc} {p : Policy} {t : PyVal} {extra : Doc} (h : Shape d p t extra)
    (k : List Char) (hk : k ∈ addedKeys) (v : PyVal) : Shape (setKey k v d) p t (setKey k v extra) := by
  refine ⟨?_, setKey_keys k v extra addedKeys hk h.keys⟩
  rw [h.eq, setKey_append_notin k v _ _ (encPolicy_key_ne_added p t k hk)]

theorem Shape.base (p : Policy) (t : PyVal) : Shape (encPolicy p t) p t [] :=
  ⟨(List.append_nil _).symm, fun _ h => by cases h⟩

/-- the added part of a freshly prepared document -/
def freshExtra (p : Policy) (a s r : List PyVal) : Doc :=
  [(kActionsC, .list a), (kSubjectsC, .list s), (kResourcesC, .list r), (kId, p.uid)]

theorem kne : (kId = kActionsC) = False ∧ (kId = kSubjectsC) = False ∧ (kId = kResourcesC) = False ∧
    (kSubjectsC = kActionsC) = False ∧ (kResourcesC = kActionsC) = False ∧ (kResourcesC = kSubjectsC) = False ∧
    (kActionsC = kId) = False ∧ (kSubjectsC = kId) = False ∧ (kResourcesC = kId) = False ∧
    (kActionsC = kSubjectsC) = False ∧ (kActionsC = kResourcesC) = False ∧ (kSubjectsC = kResourcesC) = False := by
  refine ⟨?_, ?_, ?_, ?_, ?_, ?_, ?_, ?_, ?_, ?_, ?_, ?_⟩ <;> (simp only [eq_iff_iff, iff_false]; decide +kernel)

/-- what `__prepare_doc` returns has the shape, for the policy it was given; its added part is `_id` alone for a
rule-based policy and the three compiled arrays followed by `_id` for a string-based one -/
theorem mongoDoc_shape' (c : Compile) (p : Policy) (d : Doc) (h : mongoDoc c p = some d) :
    (strBased p = false ∧ Shape d p (.int (typeOf p)) [(kId, p.uid)]) ∨
    (strBased p = true ∧ ∃ a s r, Shape d p (.int (typeOf p)) (freshExtra p a s r)) := by
  unfold mongoDoc at h
  simp only at h
  obtain ⟨e1, e2, e3, f1, f2, f3, _⟩ := kne
  split at h
  · rename_i hsb
    split at h
    · rename_i a s r _ _ _
      cases h
      refine Or.inr ⟨hsb, a, s, r, ?_⟩
      have := (((Shape.base p (.int (typeOf p))).setAdded kActionsC (by simp [addedKeys]) (.list a)).setAdded kSubjectsC
        (by simp [addedKeys]) (.list s) |>.setAdded kResourcesC (by simp [addedKeys]) (.list r)).setAdded kId (by simp [addedKeys]) p.uid
      simpa [setKey, freshExtra, e1, e2, e3, f1, f2, f3] using this
    · cases h
  · rename_i hsb
    cases h
    refine Or.inl ⟨by simpa using hsb, ?_⟩
    simpa [setKey] using (Shape.base p (.int (typeOf p))).setAdded kId (by simp [addedKeys]) p.uid

theorem mongoDoc_shape (c : Compile) (p : Policy) (d : Doc) (h : mongoDoc c p = some d) :
    ∃ extra, Shape d p (.int (typeOf p)) extra ∧ lookup kId extra = some p.uid := by
  obtain ⟨e1, e2, e3, _⟩ := kne
  rcases mongoDoc_shape' c p d h with ⟨_, hs⟩ | ⟨_, a, s, r, hs⟩
  · exact ⟨_, hs, by simp [lookup]⟩
  · exact ⟨_, hs, by simp [freshExtra, lookup, e1, e2, e3]⟩

/-! ## `$set`: the stored document after an update -/

/-- replacing the eight policy fields one by one, in writing order, on a document that starts with them -/
theorem setAll_encPolicy (p0 p : Policy) (t0 t : PyVal) (extra : Doc) :
    setAll (encPolicy p t) (encPolicy p0 t0 ++ extra) = encPolicy p t ++ extra := by
  simp [setAll, encPolicy, setKey, List.foldl]

theorem setAll_append (a b d : Doc) : setAll (a ++ b) d = setAll b (setAll a d) := by
  simp [setAll, List.foldl_append]

theorem setAll_cons (k : List Char) (v : PyVal) (rest d : Doc) : setAll ((k, v) :: rest) d = setAll rest (setKey k v d) := by
  simp [setAll, List.foldl]

theorem Shape.setAll_added {d : Doc} {p : Policy} {t : PyVal} {extra : Doc} (h : Shape d p t extra) :
    ∀ (upd : Doc), (∀ kv ∈ upd, kv.1 ∈ addedKeys) → Shape (setAll upd d) p t (setAll upd extra)
  | [], _ => h
  | (k, v) :: rest, hk => by
    have h1 := h.setAdded k (hk (k, v) (List.mem_cons_self ..)) v
    rw [setAll_cons, setAll_cons]
    exact h1.setAll_added rest (fun kv hkv => hk kv (List.mem_cons_of_mem _ hkv))

/-- **the stored document after `update`** has the shape of the *new* policy; what the old document had added stays,
overwritten key by key by what the new one adds -/
theorem update_shape {d0 d : Doc} {p0 p : Policy} {t0 t : PyVal} {x0 x : Doc}
    (h0 : Shape d0 p0 t0 x0) (h : Shape d p t x) : Shape (setAll d d0) p t (setAll x x0) := by
  rw [h.eq, setAll_append, h0.eq, setAll_encPolicy]
  exact (Shape.mk rfl h0.keys : Shape (encPolicy p t ++ x0) p t x0).setAll_added x h.keys

/-! ## SQL rows -/

theorem elemFromDb_str (n : Nat) (s : List Char) (j : Option PyVal) (r : Option (List Char)) :
    elemFromDb n (.int Generated.typeStringBased) { json := j, str := some s, regex := r } = some (.str s) := by
  have : pyEq (.int Generated.typeStringBased) (.int Generated.typeStringBased) = true := by decide +kernel
  simp [elemFromDb, this]

theorem type_consts_ne : pyEq (.int Generated.typeRuleBased) (.int Generated.typeStringBased) = false := by decide +kernel

theorem all_isStr_cons {e : Elem} {es : List Elem} (h : (e :: es).all Elem.isStr = true) :
    (∃ s, e = .str s) ∧ es.all Elem.isStr = true := by
  simp only [List.all_cons, Bool.and_eq_true] at h
  refine ⟨?_, h.2⟩
  cases e <;> simp [Elem.isStr] at h
  exact ⟨_, rfl⟩

/-- string-based: every element comes back from its `*_string` column -/
theorem fromDb_toDb_str (c : Compile) (p : Policy) (hp : strBased p = true) (n : Nat) :
    ∀ (es : List Elem) (rows : List ElemRow), es.all Elem.isStr = true →
      mapOpt (elemToDb c p) es = some rows →
      mapOpt (elemFromDb n (.int Generated.typeStringBased)) rows = some es
  | [], rows, _, h => by simp only [mapOpt, Option.some.injEq] at h; subst h; rfl
  | e :: es, rows, hall, h => by
    obtain ⟨⟨s, rfl⟩, hrest⟩ := all_isStr_cons hall
    simp only [mapOpt] at h
    split at h
    · rename_i y ys hy hys
      cases h
      have ih := fromDb_toDb_str c p hp n es ys hrest hys
      simp only [elemToDb, hp, ↓reduceIte] at hy
      split at hy
      · cases hc : c p.stag p.etag s with
        | none => simp [hc] at hy
        | some cs =>
          simp only [hc, Option.map_some, Option.some.injEq] at hy
          subst hy
          simp only [mapOpt, elemFromDb_str, ih]
      · cases hy
        simp only [mapOpt, elemFromDb_str, ih]
    · cases h

/-- rule-based: every element comes back from its JSON column -/
theorem fromDb_toDb_json (c : Compile) (p : Policy) (hp : strBased p = false) (n : Nat) :
    ∀ (es : List Elem) (rows : List ElemRow), elemsWf es = true → elemsDepth es ≤ n →
      mapOpt (elemToDb c p) es = some rows →
      mapOpt (elemFromDb n (.int Generated.typeRuleBased)) rows = some es
  | [], rows, _, _, h => by simp only [mapOpt, Option.some.injEq] at h; subst h; rfl
  | e :: es, rows, hw, hd, h => by
    simp only [elemsWf, Bool.and_eq_true] at hw
    simp only [elemsDepth, max_le_iff'] at hd
    simp only [mapOpt] at h
    split at h
    · rename_i y ys hy hys
      cases h
      have ih := fromDb_toDb_json c p hp n es ys hw.2 hd.2 hys
      simp only [elemToDb, hp, Bool.false_eq_true, ↓reduceIte, Option.some.injEq] at hy
      subst hy
      simp only [mapOpt, elemFromDb, type_consts_ne, Bool.false_eq_true, ↓reduceIte, dec_enc_elem e hw.1 n hd.1, ih]
    · cases h

end Vakt.StorageCodec
