import Model.Backends
import Proofs.Store
/-! Helper lemmas for `Props/C08Backends.lean`: Python dict / slice / islice pieces against the abstract store. -/
namespace Vakt.Backends
open Vakt.Store

theorem dictGet_eq_lookup (u : Uid) (s : St) : dictGet u s = lookup u s := by
  induction s with
  | nil => rfl
  | cons kv rest ih => obtain ⟨k, v⟩ := kv; simp only [dictGet, lookup, ih]

theorem dictDel_eq_erase (u : Uid) (s : St) : dictDel u s = erase u s := by
  induction s with
  | nil => rfl
  | cons kv rest ih => obtain ⟨k, v⟩ := kv; simp only [dictDel, erase, ih]

theorem dictSet_absent (u : Uid) (p : α) (s : List (Uid × α)) (h : dictGet u s = none) :
    dictSet u p s = s ++ [(u, p)] := by
  induction s with
  | nil => rfl
  | cons kv rest ih =>
    obtain ⟨k, v⟩ := kv
    simp only [dictGet] at h
    split at h
    · cases h
    · rename_i hk; simp [dictSet, hk, ih h]

theorem dictSet_present (u : Uid) (p : Pol) (s : St) (h : (dictGet u s).isSome) :
    dictSet u p s = replace u p s := by
  induction s with
  | nil => simp [dictGet] at h
  | cons kv rest ih =>
    obtain ⟨k, v⟩ := kv
    simp only [dictGet] at h
    by_cases hk : k = u
    · simp [dictSet, replace, hk]
    · simp only [hk, ↓reduceIte] at h
      simp [dictSet, replace, hk, ih h]

/-! ### slices and pages -/

theorem pySlice_eq_page (xs : St) (l o : Nat) : pySlice xs o (l + o) = page xs l o := by
  unfold pySlice page
  rw [List.drop_take]
  congr 1
  omega

theorem islice_eq_page (xs : St) (l o : Nat) : islice xs o (l + o) = page xs l o := by
  unfold islice page
  congr 1
  omega

theorem page_zero (xs : St) (o : Nat) : page xs 0 o = [] := by simp [page]

theorem page_beyond (xs : St) (l o : Nat) (h : xs.length < o) : page xs l o = [] := by
  unfold page
  rw [List.drop_eq_nil_of_le (by omega)]
  simp

/-! ### the inherited `retrieve_all` loop -/

/-- a `get_all` that validates its arguments and otherwise cuts a page out of a fixed listing -/
def IsPaged (ga : Int → Int → Option St) (L : St) : Prop :=
  ∀ l o : Int, ga l o = if l < 0 ∨ o < 0 then none else some (page L l.toNat o.toNat)

theorem retrLoop_paged (ga : Int → Int → Option St) (L : St) (hg : IsPaged ga L) (b : Int) (hb : 0 ≤ b) :
    ∀ (f : Nat) (off : Nat), retrLoop ga b f (off : Int) = some (retrieveLoop L b.toNat f off) := by
  intro f
  induction f with
  | zero => intro off; rfl
  | succ n ih =>
    intro off
    have h1 : ¬ (b < 0 ∨ (off : Int) < 0) := by omega
    simp only [retrLoop, hg b off, h1, ↓reduceIte, retrieveLoop, Int.toNat_natCast]
    by_cases he : (page L b.toNat off).isEmpty
    · simp [he]
    · have hcast : ((off : Int) + b) = ((off + b.toNat : Nat) : Int) := by omega
      simp only [he, Bool.false_eq_true, ↓reduceIte]
      rw [hcast, ih (off + b.toNat)]

theorem retrLoop_negative (ga : Int → Int → Option St) (L : St) (hg : IsPaged ga L) (b : Int) (hb : b < 0)
    (f : Nat) : retrLoop ga b (f + 1) 0 = none := by
  simp [retrLoop, hg b 0, hb]

/-- the whole `retrieve_all` of a paged `get_all` is the abstract store's `retrieveAll`, or `ValueError` -/
theorem retr_paged (ga : Int → Int → Option St) (L : St) (hg : IsPaged ga L) (b : Int) :
    retrLoop ga b (L.length + 1) 0 = if b < 0 then none else some (retrieveAll L b.toNat) := by
  by_cases hb : b < 0
  · simp [hb, retrLoop_negative ga L hg b hb]
  · have := retrLoop_paged ga L hg b (by omega) (L.length + 1) 0
    simp only [hb, ↓reduceIte]
    rw [retrieveAll, ← this]
    rfl

/-! ### Redis: the serialized hash against the map of policies -/

theorem feed_append (sr : Ser) (h : RHash) (u : Uid) (b : Bytes) :
    feed sr (h ++ [(u, b)]) = feed sr h ++ [(u, sr.deser b)] := by simp [feed]

theorem lookup_feed (sr : Ser) (u : Uid) (h : RHash) : lookup u (feed sr h) = (dictGet u h).map sr.deser := by
  induction h with
  | nil => rfl
  | cons kv rest ih =>
    obtain ⟨k, v⟩ := kv
    simp only [feed, List.map_cons, lookup, dictGet] at ih ⊢
    split
    · rfl
    · exact ih

theorem feed_dictDel (sr : Ser) (u : Uid) (h : RHash) : feed sr (dictDel u h) = erase u (feed sr h) := by
  induction h with
  | nil => rfl
  | cons kv rest ih =>
    obtain ⟨k, v⟩ := kv
    simp only [feed, List.map_cons, dictDel, erase] at ih ⊢
    split
    · rfl
    · simp [ih]

theorem feed_dictSet_present (sr : Ser) (u : Uid) (b : Bytes) (h : RHash) (hp : (dictGet u h).isSome) :
    feed sr (dictSet u b h) = replace u (sr.deser b) (feed sr h) := by
  induction h with
  | nil => simp [dictGet] at hp
  | cons kv rest ih =>
    obtain ⟨k, v⟩ := kv
    simp only [dictGet] at hp
    by_cases hk : k = u
    · simp [feed, dictSet, replace, hk]
    · simp only [hk, ↓reduceIte] at hp
      have := ih hp
      simp only [feed] at this
      simp [feed, dictSet, replace, hk, this]

theorem feed_page (sr : Ser) (h : RHash) (l o : Nat) :
    feed sr ((h.drop o).take l) = page (feed sr h) l o := by
  simp [feed, page, List.map_take, List.map_drop]

theorem feed_length (sr : Ser) (h : RHash) : (feed sr h).length = h.length := by simp [feed]

/-- every stored value is a non-empty byte string -/
def NonEmptyVals (h : RHash) : Prop := ∀ kv ∈ h, kv.2 ≠ []

theorem dictGet_mem (u : Uid) (b : α) (h : List (Uid × α)) (hg : dictGet u h = some b) : (u, b) ∈ h := by
  induction h with
  | nil => simp [dictGet] at hg
  | cons kv rest ih =>
    obtain ⟨k, v⟩ := kv
    simp only [dictGet] at hg
    split at hg
    · rename_i hk; cases hg; simp [hk]
    · exact List.mem_cons_of_mem _ (ih hg)

theorem mem_dictSet (u : Uid) (b : α) (h : List (Uid × α)) (kv : Uid × α) (hm : kv ∈ dictSet u b h) :
    kv ∈ h ∨ kv = (u, b) := by
  induction h with
  | nil => simp [dictSet] at hm; exact Or.inr hm
  | cons x rest ih =>
    obtain ⟨k, v⟩ := x
    simp only [dictSet] at hm
    split at hm
    · rename_i hk
      rcases List.mem_cons.1 hm with e | e
      · exact Or.inr (by rw [e, hk])
      · exact Or.inl (List.mem_cons_of_mem _ e)
    · rcases List.mem_cons.1 hm with e | e
      · exact Or.inl (by rw [e]; exact List.mem_cons_self)
      · rcases ih e with e' | e'
        · exact Or.inl (List.mem_cons_of_mem _ e')
        · exact Or.inr e'

theorem mem_dictDel (u : Uid) (h : List (Uid × α)) (kv : Uid × α) (hm : kv ∈ dictDel u h) : kv ∈ h := by
  induction h with
  | nil => simp [dictDel] at hm
  | cons x rest ih =>
    obtain ⟨k, v⟩ := x
    simp only [dictDel] at hm
    split at hm
    · exact List.mem_cons_of_mem _ hm
    · rcases List.mem_cons.1 hm with e | e
      · rw [e]; exact List.mem_cons_self
      · exact List.mem_cons_of_mem _ (ih e)

theorem nonEmpty_append (h : RHash) (u : Uid) (b : Bytes) (hb : b ≠ []) (hi : NonEmptyVals h) :
    NonEmptyVals (h ++ [(u, b)]) := by
  intro kv hm
  rcases List.mem_append.1 hm with e | e
  · exact hi kv e
  · simp at e; rw [e]; exact hb

theorem nonEmpty_dictSet (h : RHash) (u : Uid) (b : Bytes) (hb : b ≠ []) (hi : NonEmptyVals h) :
    NonEmptyVals (dictSet u b h) := by
  intro kv hm
  rcases mem_dictSet u b h kv hm with e | e
  · exact hi kv e
  · rw [e]; exact hb

theorem nonEmpty_dictDel (h : RHash) (u : Uid) (hi : NonEmptyVals h) : NonEmptyVals (dictDel u h) :=
  fun kv hm => hi kv (mem_dictDel u h kv hm)

end Vakt.Backends
