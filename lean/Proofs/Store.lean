import Model.Store
namespace Vakt.Store

theorem lookup_append (u : Uid) (a b : St) :
    lookup u (a ++ b) = (lookup u a).orElse (fun _ => lookup u b) := by
  induction a with
  | nil => simp [lookup]
  | cons x rest ih =>
    obtain ⟨k, v⟩ := x
    simp only [List.cons_append, lookup]
    split
    · simp
    · exact ih

theorem lookup_replace (u u' : Uid) (p : Pol) (s : St) :
    lookup u' (replace u p s) = if u' = u then (lookup u s).map (fun _ => p) else lookup u' s := by
  induction s with
  | nil => simp [lookup, replace]
  | cons x rest ih =>
    obtain ⟨k, v⟩ := x
    simp only [replace]
    by_cases hk : k = u
    · subst hk
      simp only [↓reduceIte, lookup]
      by_cases h : u' = k
      · subst h; simp
      · have : ¬ k = u' := fun e => h e.symm
        simp [h, this]
    · simp only [hk, ↓reduceIte, lookup]
      by_cases h : k = u'
      · subst h
        have : ¬ k = u := hk
        simp [this]
      · simp only [h, ↓reduceIte, ih]

theorem lookup_erase_ne (u u' : Uid) (s : St) (h : u' ≠ u) : lookup u' (erase u s) = lookup u' s := by
  induction s with
  | nil => simp [erase]
  | cons x rest ih =>
    obtain ⟨k, v⟩ := x
    simp only [erase]
    by_cases hk : k = u
    · subst hk
      have : ¬ k = u' := fun e => h e.symm
      simp [lookup, this]
    · simp only [hk, ↓reduceIte, lookup]
      split
      · rfl
      · exact ih

theorem lookup_erase_self (u : Uid) (s : St) (hd : Distinct s) : lookup u (erase u s) = none := by
  induction s with
  | nil => simp [erase, lookup]
  | cons x rest ih =>
    obtain ⟨k, v⟩ := x
    simp only [erase]
    by_cases hk : k = u
    · subst hk; simpa using hd.1
    · simp only [hk, ↓reduceIte, lookup]
      exact ih hd.2

theorem erase_absent (u : Uid) (s : St) (h : lookup u s = none) : erase u s = s := by
  induction s with
  | nil => rfl
  | cons x rest ih =>
    obtain ⟨k, v⟩ := x
    simp only [lookup] at h
    by_cases hk : k = u
    · simp [hk] at h
    · simp only [hk, ↓reduceIte] at h
      simp [erase, hk, ih h]

theorem lookup_none_of_erase (k u : Uid) (s : St) (h : lookup k s = none) : lookup k (erase u s) = none := by
  induction s with
  | nil => simp [erase, lookup]
  | cons x rest ih =>
    obtain ⟨k', v⟩ := x
    simp only [lookup] at h
    by_cases hk : k' = k
    · simp [hk] at h
    · simp only [hk, ↓reduceIte] at h
      simp only [erase]
      split
      · exact h
      · simp [lookup, hk, ih h]

theorem distinct_erase (u : Uid) (s : St) (hd : Distinct s) : Distinct (erase u s) := by
  induction s with
  | nil => simp [erase, Distinct]
  | cons x rest ih =>
    obtain ⟨k, v⟩ := x
    simp only [erase]
    split
    · exact hd.2
    · exact ⟨lookup_none_of_erase k u rest hd.1, ih hd.2⟩

theorem lookup_none_of_replace (k u : Uid) (p : Pol) (s : St) (h : lookup k s = none) :
    lookup k (replace u p s) = none := by
  rw [lookup_replace]
  split
  · rename_i e; subst e; simp [h]
  · exact h

theorem distinct_replace (u : Uid) (p : Pol) (s : St) (hd : Distinct s) : Distinct (replace u p s) := by
  induction s with
  | nil => simp [replace, Distinct]
  | cons x rest ih =>
    obtain ⟨k, v⟩ := x
    simp only [replace]
    split
    · exact hd
    · exact ⟨lookup_none_of_replace k u p rest hd.1, ih hd.2⟩

theorem distinct_snoc (u : Uid) (p : Pol) (s : St) (hd : Distinct s) (h : lookup u s = none) :
    Distinct (s ++ [(u, p)]) := by
  induction s with
  | nil => simp [Distinct, lookup]
  | cons x rest ih =>
    obtain ⟨k, v⟩ := x
    simp only [lookup] at h
    by_cases hk : k = u
    · simp [hk] at h
    · simp only [hk, ↓reduceIte] at h
      refine ⟨?_, ih hd.2 h⟩
      show lookup k (rest ++ [(u, p)]) = none
      rw [lookup_append, hd.1]
      have : ¬ u = k := fun e => hk e.symm
      simp [lookup, this]

theorem insertSorted_perm (x : Uid × Pol) (s : St) : (insertSorted x s).Perm (x :: s) := by
  induction s with
  | nil => simp [insertSorted]
  | cons y rest ih =>
    simp only [insertSorted]
    split
    · exact List.Perm.refl _
    · exact (List.Perm.cons y ih).trans (List.Perm.swap x y rest)

theorem sortUid_perm (s : St) : (sortUid s).Perm s := by
  induction s with
  | nil => simp [sortUid]
  | cons x rest ih =>
    simp only [sortUid]
    exact (insertSorted_perm x (sortUid rest)).trans (List.Perm.cons x ih)

theorem retrieveLoop_eq (l : St) (b : Nat) (hb : 0 < b) :
    ∀ fuel off, l.length - off < fuel → retrieveLoop l b fuel off = l.drop off := by
  intro fuel
  induction fuel with
  | zero => intro off h; omega
  | succ f ih =>
    intro off h
    simp only [retrieveLoop, page]
    by_cases hoff : l.length ≤ off
    · have : l.drop off = [] := List.drop_eq_nil_of_le hoff
      simp [this]
    · have hlt : off < l.length := Nat.lt_of_not_le hoff
      have hne : ((l.drop off).take b).isEmpty = false := by
        rw [List.isEmpty_eq_false_iff]
        intro hnil
        have hlen : ((l.drop off).take b).length = 0 := by rw [hnil]; rfl
        simp only [List.length_take, List.length_drop] at hlen
        omega
      simp only [hne, Bool.false_eq_true, ↓reduceIte]
      rw [ih (off + b) (by omega)]
      rw [← List.drop_drop]
      exact List.take_append_drop b (l.drop off)

end Vakt.Store
