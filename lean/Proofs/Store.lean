import Model.Store
namespace Vakt.Store

theorem lookup_append (u : Uid) (a b : St) :
    lookup u (a ++ b) = (lookup u a).orElse (fun _ => lookup u b) := by
  induction a with
  | nil => simp [lookup]
  | cons x rest ih =>
    obtain ⟨k, v⟩ := x
    simp only [List.cons_append, lookup]
    split
    · simp
    · exact ih

theorem lookup_replace (u u' : Uid) (p : Pol) (s : St) :
    lookup u' (replace u p s) = if u' = u then (lookup u s).map (fun _ => p) else lookup u' s := by
  induction s with
  | nil => simp [lookup, replace]
  | cons x rest ih =>
    obtain ⟨k, v⟩ := x
    simp only [replace]
    by_cases hk : k = u
    · subst hk
      simp only [↓reduceIte, lookup]
      by_cases h : u' = k
      · subst h; simp
      · have : ¬ k = u' := fun e => h e.symm
        simp [h, this]
    · simp only [hk, ↓reduceIte, lookup]
      by_cases h : k = u'
      · subst h
        have : ¬ k = u := hk
        simp [this]
      · simp only [h, ↓reduceIte, ih]

theorem lookup_erase_ne (u u' : Uid) (s : St) (h : u' ≠ u) : lookup u' (erase u s) = lookup u' s := by
  induction s with
  | nil => simp [erase]
  | cons x rest ih =>
    obtain ⟨k, v⟩ := x
    simp only [erase]
    by_cases hk : k = u
    · subst hk
      have : ¬ k = u' := fun e => h e.symm
      simp [lookup, this]
    · simp only [hk, ↓reduceIte, lookup]
      split
      · rfl
      · exact ih

theorem lookup_erase_self (u : Uid) (s : St) (hd : Distinct s) : lookup u (erase u s) = none := by
  induction s with
  | nil => simp [erase, lookup]
  | cons x rest ih =>
    obtain ⟨k, v⟩ := x
    simp only [erase]
    by_cases hk : k = u
    · subst hk; simpa using hd.1
    · simp only [hk, ↓reduceIte, lookup]
      exact ih hd.2

theorem erase_absent (u : Uid) (s : St) (h : lookup u s = none) : erase u s = s := by
  induction s with
  | nil => rfl
  | cons x rest ih =>
    obtain ⟨k, v⟩ := x
    simp only [lookup] at h
    by_cases hk : k = u
    · simp [hk] at h
    · simp only [hk, ↓reduceIte] at h
      simp [erase, hk, ih h]

theorem lookup_none_of_erase (k u : Uid) (s : St) (h : lookup k s = none) : lookup k (erase u s) = none := by
  induction s with
  | nil => simp [erase, lookup]
  | cons x rest ih =>
    obtain ⟨k', v⟩ := x
    simp only [lookup] at h
    by_cases hk : k' = k
    · simp [hk] at h
    · simp only [hk, ↓reduceIte] at h
      simp only [erase]
      split
      · exact h
      · simp [lookup, hk, ih h]

theorem distinct_erase (u : Uid) (s : St) (hd : Distinct s) : Distinct (erase u s) := by
  induction s with
  | nil => simp [erase, Distinct]
  | cons x rest ih =>
    obtain ⟨k, v⟩ := x
    simp only [erase]
    split
    · exact hd.2
    · exact ⟨lookup_none_of_erase k u rest hd.1, ih hd.2⟩

theorem lookup_none_of_replace (k u : Uid) (p : Pol) (s : St) (h : lookup k s = none) :
    lookup k (replace u p s) = none := by
  rw [lookup_replace]
  split
  · rename_i e; subst e; simp [h]
  · exact h

theorem distinct_replace (u : Uid) (p : Pol) (s : St) (hd : Distinct s) : Distinct (replace u p s) := by
  induction s with
  | nil => simp [replace, Distinct]
  | cons x rest ih =>
    obtain ⟨k, v⟩ := x
    simp only [replace]
    split
    · exact hd
    · exact ⟨lookup_none_of_replace k u p rest hd.1, ih hd.2⟩

theorem distinct_snoc (u : Uid) (p : Pol) (s : St) (hd : Distinct s) (h : lookup u s = none) :
    Distinct (s ++ [(u, p)]) := by
  induction s with
  | nil => simp [Distinct, lookup]
  | cons x rest ih =>
    obtain ⟨k, v⟩ := x
    simp only [lookup] at h
    by_cases hk : k = u
    · simp [hk] at h
    · simp only [hk, ↓reduceIte] at h
      refine ⟨?_, ih hd.2 h⟩
      show lookup k (rest ++ [(u, p)]) = none
      rw [lookup_append, hd.1]
      have : ¬ u = k := fun e => hk e.symm
      simp [lookup, this]

theorem insertSorted_perm (x : Uid × Pol) (s : St) : (insertSorted x s).Perm (x :: s) := by
  induction s with
  | nil => simp [insertSorted]
  | cons y rest ih =>
    simp only [insertSorted]
    split
    · exact List.Perm.refl _
    · exact (List.Perm.cons y ih).trans (List.Perm.swap x y rest)

theorem sortUid_perm (s : St) : (sortUid s).Perm s := by
  induction s with
  | nil => simp [sortUid]
  | cons x rest ih =>
    simp only [sortUid]
    exact (insertSorted_perm x (sortUid rest)).trans (List.Perm.cons x ih)

theorem retrieveLoop_eq (l : St) (b : Nat) (hb : 0 < b) :
    ∀ fuel off, l.length - off < fuel → retrieveLoop l b fuel off = l.drop off := by
  intro fuel
  induction fuel with
  | zero => intro off h; omega
  | succ f ih =>
    intro off h
    simp only [retrieveLoop, page]
    by_cases hoff : l.length ≤ off
    · have : l.drop off = [] := List.drop_eq_nil_of_le hoff
      simp [this]
    · have hlt : off < l.length := Nat.lt_of_not_le hoff
      have hne : ((l.drop off).take b).isEmpty = false := by
        rw [List.isEmpty_eq_false_iff]
        intro hnil
        have hlen : ((l.drop off).take b).length = 0 := by rw [hnil]; rfl
        simp only [List.length_take, List.length_drop] at hlen
        omega
      simp only [hne, Bool.false_eq_true, ↓reduceIte]
      rw [ih (off + b) (by omega)]
      rw [← List.drop_drop]
      exact List.take_append_drop b (l.drop off)

end Vakt.Store

namespace Vakt.Store

def keys (s : St) : List Uid := s.map Prod.fst

theorem lookup_none_iff (u : Uid) (s : St) : lookup u s = none ↔ u ∉ keys s := by
  induction s with
  | nil => simp [lookup, keys]
  | cons x rest ih =>
    obtain ⟨k, v⟩ := x
    simp only [lookup, keys, List.map_cons, List.mem_cons, not_or]
    by_cases hk : k = u
    · subst hk; simp
    · have : ¬ u = k := fun e => hk e.symm
      simp only [hk, ↓reduceIte, this, not_false_eq_true, true_and]
      exact ih

theorem distinct_iff_nodup (s : St) : Distinct s ↔ (keys s).Nodup := by
  induction s with
  | nil => simp [Distinct, keys]
  | cons x rest ih =>
    obtain ⟨k, v⟩ := x
    simp only [Distinct, keys, List.map_cons, List.nodup_cons]
    rw [lookup_none_iff, ih]
    rfl

theorem distinct_perm {s s' : St} (hp : s.Perm s') (hd : Distinct s) : Distinct s' := by
  rw [distinct_iff_nodup] at hd ⊢
  exact (List.Perm.nodup_iff (List.Perm.map Prod.fst hp)).1 hd

theorem lookup_some_iff_mem (u : Uid) (p : Pol) (s : St) (hd : Distinct s) :
    lookup u s = some p ↔ (u, p) ∈ s := by
  induction s with
  | nil => simp [lookup]
  | cons x rest ih =>
    obtain ⟨k, v⟩ := x
    simp only [lookup, List.mem_cons, Prod.mk.injEq]
    by_cases hk : k = u
    · subst hk
      simp only [↓reduceIte, Option.some.injEq, true_and]
      constructor
      · intro h; exact Or.inl h.symm
      · rintro (h | h)
        · exact h.symm
        · have := (lookup_none_iff k rest).1 hd.1
          exact absurd (List.mem_map.2 ⟨(k, p), h, rfl⟩) this
    · have : ¬ u = k := fun e => hk e.symm
      simp only [hk, ↓reduceIte, this, false_and, false_or]
      exact ih hd.2

theorem lookup_perm (u : Uid) {s s' : St} (hp : s.Perm s') (hd : Distinct s) : lookup u s = lookup u s' := by
  have hd' := distinct_perm hp hd
  cases h : lookup u s with
  | none =>
    have := (lookup_none_iff u s).1 h
    have h' : u ∉ keys s' := fun hm => this ((List.Perm.mem_iff (List.Perm.map Prod.fst hp)).2 hm)
    exact ((lookup_none_iff u s').2 h').symm
  | some p =>
    have := (lookup_some_iff_mem u p s hd).1 h
    exact ((lookup_some_iff_mem u p s' hd').2 (hp.mem_iff.1 this)).symm

/-- two maps with the same bindings list the same pairs, up to order -/
theorem perm_of_same_lookup (s s' : St) (hd : Distinct s) (hd' : Distinct s')
    (h : ∀ u, lookup u s = lookup u s') : s.Perm s' := by
  have nd : ∀ t : St, Distinct t → t.Nodup := by
    intro t
    induction t with
    | nil => intro _; exact List.nodup_nil
    | cons x rest ih =>
      obtain ⟨k, v⟩ := x
      intro hdt
      rw [List.nodup_cons]
      refine ⟨fun hm => ?_, ih hdt.2⟩
      exact (lookup_none_iff k rest).1 hdt.1 (List.mem_map.2 ⟨(k, v), hm, rfl⟩)
  have n1 : s.Nodup := nd s hd
  have n2 : s'.Nodup := nd s' hd'
  rw [List.perm_ext_iff_of_nodup n1 n2]
  rintro ⟨u, p⟩
  rw [← lookup_some_iff_mem u p s hd, ← lookup_some_iff_mem u p s' hd', h u]

end Vakt.Store
