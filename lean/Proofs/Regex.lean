import Model.Regex
/-!
# The derivative matcher decides the denotational language
-/
namespace Vakt.Re

theorem nullable_iff (r : Re) : r.nullable = true ↔ Lang r [] := by
  induction r with
  | zero => simp [nullable]; intro h; cases h
  | eps => simp [nullable]; exact Lang.eps
  | set p => simp [nullable]; intro h; cases h
  | alt a b iha ihb =>
    simp [nullable, iha, ihb]
    constructor
    · rintro (h | h); exact .altL h; exact .altR h
    · intro h; cases h with
      | altL h => exact Or.inl h
      | altR h => exact Or.inr h
  | cat a b iha ihb =>
    simp [nullable, iha, ihb]
    constructor
    · rintro ⟨h1, h2⟩; exact Lang.cat (u := []) (v := []) h1 h2
    · intro h
      generalize hw : ([] : List Char) = w at h
      cases h with
      | cat h1 h2 =>
        rename_i u v
        have : u = [] ∧ v = [] := by simpa using hw.symm
        obtain ⟨rfl, rfl⟩ := this
        exact ⟨h1, h2⟩
  | star a _ => simp [nullable]; exact Lang.starNil

theorem star_cons_inv_aux {r : Re} {x : List Char} (h : Lang r x) :
    ∀ {a : Re} {c : Char} {w : List Char}, r = .star a → x = c :: w →
    ∃ u v, w = u ++ v ∧ Lang a (c :: u) ∧ Lang (.star a) v := by
  induction h with
  | eps => intro _ _ _ hr; cases hr
  | set _ => intro _ _ _ hr; cases hr
  | altL _ => intro _ _ _ hr; cases hr
  | altR _ => intro _ _ _ hr; cases hr
  | cat _ _ => intro _ _ _ hr; cases hr
  | starNil => intro _ _ _ _ hw; cases hw
  | @starCons a0 u v h1 h2 _ ih2 =>
    intro a c w hr hw
    cases hr
    cases u with
    | nil => exact ih2 rfl (by simpa using hw)
    | cons d u' =>
      simp at hw
      obtain ⟨rfl, rfl⟩ := hw
      exact ⟨u', v, rfl, h1, h2⟩

theorem star_cons_inv {a : Re} {c : Char} {w : List Char} (h : Lang (.star a) (c :: w)) :
    ∃ u v, w = u ++ v ∧ Lang a (c :: u) ∧ Lang (.star a) v :=
  star_cons_inv_aux h rfl rfl

theorem deriv_iff (r : Re) (c : Char) (w : List Char) : Lang (r.deriv c) w ↔ Lang r (c :: w) := by
  induction r generalizing w with
  | zero => simp [deriv]; constructor <;> (intro h; cases h)
  | eps => simp [deriv]; constructor <;> (intro h; cases h)
  | set p =>
    simp only [deriv]
    constructor
    · intro h
      split at h
      · cases h; exact Lang.set ‹_›
      · cases h
    · intro h
      cases h with
      | set hp => simp [hp]; exact Lang.eps
  | alt a b iha ihb =>
    simp only [deriv]
    constructor
    · intro h; cases h with
      | altL h => exact .altL ((iha w).1 h)
      | altR h => exact .altR ((ihb w).1 h)
    · intro h; cases h with
      | altL h => exact .altL ((iha w).2 h)
      | altR h => exact .altR ((ihb w).2 h)
  | cat a b iha ihb =>
    simp only [deriv]
    constructor
    · intro h
      split at h
      · rename_i hn
        cases h with
        | altL h =>
          cases h with
          | cat h1 h2 => exact Lang.cat (u := c :: _) ((iha _).1 h1) h2
        | altR h =>
          have := (ihb w).1 h
          exact Lang.cat (u := []) ((nullable_iff a).1 hn) this
      · cases h with
        | cat h1 h2 => exact Lang.cat (u := c :: _) ((iha _).1 h1) h2
    · intro h
      generalize hw : c :: w = w' at h
      cases h with
      | cat h1 h2 =>
        rename_i u v
        cases u with
        | nil =>
          simp at hw; subst hw
          have hn := (nullable_iff a).2 h1
          simp [hn]
          exact .altR ((ihb w).2 h2)
        | cons d u' =>
          simp at hw
          obtain ⟨rfl, rfl⟩ := hw
          have := Lang.cat ((iha u').2 h1) h2
          split
          · exact .altL this
          · exact this
  | star a iha =>
    simp only [deriv]
    constructor
    · intro h
      cases h with
      | cat h1 h2 => exact Lang.starCons (u := c :: _) ((iha _).1 h1) h2
    · intro h
      obtain ⟨u, v, rfl, h1, h2⟩ := star_cons_inv h
      exact Lang.cat ((iha u).2 h1) h2

/-- the executable whole-string matcher is exactly the language -/
theorem accepts_iff (r : Re) (w : List Char) : r.accepts w = true ↔ Lang r w := by
  induction w generalizing r with
  | nil => simpa [accepts] using nullable_iff r
  | cons c cs ih => simp [accepts, ih, deriv_iff]

/-- the prefix matcher (`re.match`) : some prefix of the word is in the language -/
theorem matchesPrefix_iff (r : Re) (w : List Char) :
    r.matchesPrefix w = true ↔ ∃ u v, w = u ++ v ∧ Lang r u := by
  induction w generalizing r with
  | nil =>
    simp only [matchesPrefix, nullable_iff]
    constructor
    · intro h; exact ⟨[], [], rfl, h⟩
    · rintro ⟨u, v, huv, h⟩
      have : u = [] := by
        cases u with
        | nil => rfl
        | cons a t => simp at huv
      subst this; exact h
  | cons c cs ih =>
    simp only [matchesPrefix, Bool.or_eq_true, ih, nullable_iff]
    constructor
    · rintro (h | ⟨u, v, huv, h⟩)
      · exact ⟨[], c :: cs, rfl, h⟩
      · exact ⟨c :: u, v, by simp [huv], (deriv_iff r c u).1 h⟩
    · rintro ⟨u, v, huv, h⟩
      cases u with
      | nil => exact Or.inl h
      | cons d u' =>
        simp at huv
        obtain ⟨rfl, rfl⟩ := huv
        exact Or.inr ⟨u', v, rfl, (deriv_iff r c u').2 h⟩

/-- `re.match('…$')`: the whole word, or the whole word but for one final newline -/
theorem acceptsDollar_iff (r : Re) (w : List Char) :
    r.acceptsDollar w = true ↔ (Lang r w ∨ ∃ u, w = u ++ ['\n'] ∧ Lang r u) := by
  induction w generalizing r with
  | nil =>
    simp only [acceptsDollar, nullable_iff]
    constructor
    · intro h; exact Or.inl h
    · rintro (h | ⟨u, hu, _⟩)
      · exact h
      · simp at hu
  | cons c cs ih =>
    simp only [acceptsDollar, Bool.or_eq_true, Bool.and_eq_true, ih, nullable_iff, beq_iff_eq,
      List.isEmpty_iff]
    constructor
    · rintro (⟨⟨rfl, rfl⟩, h⟩ | h | ⟨u, hu, h⟩)
      · exact Or.inr ⟨[], rfl, h⟩
      · exact Or.inl ((deriv_iff r c cs).1 h)
      · exact Or.inr ⟨c :: u, by simp [hu], (deriv_iff r c u).1 h⟩
    · rintro (h | ⟨u, hu, h⟩)
      · exact Or.inr (Or.inl ((deriv_iff r c cs).2 h))
      · cases u with
        | nil =>
          simp at hu
          obtain ⟨rfl, rfl⟩ := hu
          exact Or.inl ⟨⟨rfl, rfl⟩, h⟩
        | cons d u' =>
          simp at hu
          obtain ⟨rfl, rfl⟩ := hu
          exact Or.inr (Or.inr ⟨u', rfl, (deriv_iff r c u').2 h⟩)

end Vakt.Re
