import Model.Guard
/-!
# Lemmas about the generic guard (`filterM`, `decideCore`, `decide`)
-/
namespace Vakt
open PyVal

def isOkTrue : R → Bool
  | .ok true => true
  | _ => false

theorem isOkTrue_iff (r : R) : isOkTrue r = true ↔ r = .ok true := by
  cases r with
  | error e => simp [isOkTrue]
  | ok b => cases b <;> simp [isOkTrue]

def NoRaise (m : Policy → R) (ps : List Policy) : Prop := ∀ p ∈ ps, ∃ b, m p = .ok b

theorem filterM_ok (m : Policy → R) (ps : List Policy) (h : NoRaise m ps) :
    filterM m ps = .ok (ps.filter fun p => isOkTrue (m p)) := by
  induction ps with
  | nil => simp [filterM]
  | cons p ps ih =>
    have hp := h p (by simp)
    have hps : NoRaise m ps := fun x hx => h x (by simp [hx])
    obtain ⟨b, hb⟩ := hp
    simp only [filterM, hb, ih hps]
    cases b <;> simp [hb, isOkTrue]

theorem filterM_err (m : Policy → R) (ps : List Policy) (p : Policy) (hp : p ∈ ps) (e : PyErr)
    (he : m p = .error e) : ∃ e', filterM m ps = .error e' := by
  induction ps with
  | nil => simp at hp
  | cons x xs ih =>
    simp only [filterM]
    rcases List.mem_cons.1 hp with rfl | h
    · simp [he]
    · obtain ⟨e', h'⟩ := ih h
      cases hx : m x with
      | error e2 => exact ⟨e2, by simp⟩
      | ok b => exact ⟨e', by simp [h']⟩

theorem raise_or_noRaise (m : Policy → R) (ps : List Policy) :
    (∃ p ∈ ps, ∃ e, m p = .error e) ∨ NoRaise m ps := by
  induction ps with
  | nil => exact Or.inr (fun p hp => by simp at hp)
  | cons x xs ih =>
    cases hx : m x with
    | error e => exact Or.inl ⟨x, by simp, e, hx⟩
    | ok b =>
      rcases ih with ⟨p, hp, e, he⟩ | hn
      · exact Or.inl ⟨p, by simp [hp], e, he⟩
      · refine Or.inr (fun p hp => ?_)
        rcases List.mem_cons.1 hp with rfl | h
        · exact ⟨b, hx⟩
        · exact hn p h

theorem decideFiltered_true_iff (fl : List Policy) :
    (decideFiltered fl).1 = true ↔ fl ≠ [] ∧ ∀ p ∈ fl, p.allowAccess = true := by
  unfold decideFiltered
  cases hfl : fl with
  | nil => simp
  | cons a t =>
    simp only [List.isEmpty_cons, Bool.false_eq_true, ↓reduceIte, ne_eq, reduceCtorEq, not_false_eq_true,
      true_and]
    cases hf : (a :: t).find? (fun p => !p.allowAccess) with
    | some p =>
      simp only [Bool.false_eq_true, false_iff]
      intro hall
      have hm := List.mem_of_find?_eq_some hf
      have hp := List.find?_some hf
      simp [hall p hm] at hp
    | none =>
      simp only [true_iff]
      intro p hp
      have := List.find?_eq_none.1 hf p hp
      simpa using this

theorem decide_raise (m : Policy → R) (ps : List Policy) (p : Policy) (hp : p ∈ ps)
    (e : PyErr) (he : m p = .error e) : decide m ps = false := by
  obtain ⟨e', h'⟩ := filterM_err m ps p hp e he
  simp [decide, isAllowed, decideAns, decideCore, h']

theorem decide_iff (m : Policy → R) (ps : List Policy) (h : NoRaise m ps) :
    decide m ps = true ↔
      (∃ p ∈ ps, m p = .ok true) ∧ (∀ p ∈ ps, m p = .ok true → p.allowAccess = true) := by
  simp only [decide, isAllowed, decideAns, decideCore, filterM_ok m ps h]
  rw [decideFiltered_true_iff]
  simp only [ne_eq, List.filter_eq_nil_iff, List.mem_filter, isOkTrue_iff, and_imp]
  constructor
  · rintro ⟨hne, hall⟩
    refine ⟨?_, fun p hp hm => hall p hp hm⟩
    apply Classical.byContradiction
    intro hcon
    apply hne
    intro p hp hm
    exact hcon ⟨p, hp, hm⟩
  · rintro ⟨⟨p, hp, hm⟩, hall⟩
    refine ⟨?_, fun p hp hm => hall p hp hm⟩
    intro hcon
    exact hcon p hp hm

theorem decide_veto (m : Policy → R) (ps : List Policy) (p : Policy)
    (hp : p ∈ ps) (hm : m p = .ok true) (he : p.allowAccess = false) : decide m ps = false := by
  rcases raise_or_noRaise m ps with ⟨x, hx, e, hxe⟩ | hr
  · exact decide_raise m ps x hx e hxe
  · cases hd : decide m ps with
    | false => rfl
    | true =>
      have := ((decide_iff m ps hr).1 hd).2 p hp hm
      simp [he] at this

/-- the decision depends only on which policies are members, not on order or multiplicity -/
theorem decide_mem_congr (m : Policy → R) (ps ps' : List Policy) (hmem : ∀ p, p ∈ ps ↔ p ∈ ps') :
    decide m ps = decide m ps' := by
  rcases raise_or_noRaise m ps with ⟨x, hx, e, hxe⟩ | hr
  · rw [decide_raise m ps x hx e hxe, decide_raise m ps' x ((hmem x).1 hx) e hxe]
  · have hr' : NoRaise m ps' := fun p hp => hr p ((hmem p).2 hp)
    have h1 := decide_iff m ps hr
    have h2 := decide_iff m ps' hr'
    have : decide m ps = true ↔ decide m ps' = true := by
      rw [h1, h2]
      constructor
      · rintro ⟨⟨p, hp, hm⟩, hall⟩
        exact ⟨⟨p, (hmem p).1 hp, hm⟩, fun q hq => hall q ((hmem q).2 hq)⟩
      · rintro ⟨⟨p, hp, hm⟩, hall⟩
        exact ⟨⟨p, (hmem p).2 hp, hm⟩, fun q hq => hall q ((hmem q).1 hq)⟩
    cases h : decide m ps <;> cases h' : decide m ps' <;> simp_all

/-- the decision depends on the policies only through their match result and allow flag -/
theorem decide_map_congr (m m' : Policy → R) (f : Policy → Policy) (ps : List Policy)
    (hm : ∀ p ∈ ps, m' (f p) = m p) (ha : ∀ p ∈ ps, (f p).allowAccess = p.allowAccess) :
    decide m' (ps.map f) = decide m ps := by
  rcases raise_or_noRaise m ps with ⟨x, hx, e, hxe⟩ | hr
  · rw [decide_raise m ps x hx e hxe,
      decide_raise m' (ps.map f) (f x) (List.mem_map.2 ⟨x, hx, rfl⟩) e (by rw [hm x hx, hxe])]
  · have hr' : NoRaise m' (ps.map f) := by
      intro p hp
      obtain ⟨x, hx, rfl⟩ := List.mem_map.1 hp
      rw [hm x hx]; exact hr x hx
    have h1 := decide_iff m ps hr
    have h2 := decide_iff m' (ps.map f) hr'
    have : decide m' (ps.map f) = true ↔ decide m ps = true := by
      rw [h1, h2]
      constructor
      · rintro ⟨⟨p, hp, hmp⟩, hall⟩
        obtain ⟨x, hx, rfl⟩ := List.mem_map.1 hp
        refine ⟨⟨x, hx, by rw [← hm x hx]; exact hmp⟩, fun q hq hmq => ?_⟩
        have := hall (f q) (List.mem_map.2 ⟨q, hq, rfl⟩) (by rw [hm q hq]; exact hmq)
        rw [← ha q hq]; exact this
      · rintro ⟨⟨p, hp, hmp⟩, hall⟩
        refine ⟨⟨f p, List.mem_map.2 ⟨p, hp, rfl⟩, by rw [hm p hp]; exact hmp⟩, fun q hq hmq => ?_⟩
        obtain ⟨x, hx, rfl⟩ := List.mem_map.1 hq
        rw [ha x hx]; exact hall x hx (by rw [← hm x hx]; exact hmq)
    cases h : decide m' (ps.map f) <;> cases h' : decide m ps <;> simp_all

theorem pyEq_str_right (x : PyVal) (s : List Char) : pyEq x (.str s) = true ↔ x = .str s := by
  cases x <;> simp [pyEq, asNum]

end Vakt
