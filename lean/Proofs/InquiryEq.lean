import Model.InquiryEq
/-!
# Lemmas for C13: the key order is a strict total order; sorting distinct keys is canonical
-/
namespace Vakt
open PyVal

theorem strLt_irrefl (a : List Char) : strLt a a = false := by
  induction a with
  | nil => rfl
  | cons c cs ih => simp [strLt, ih]

theorem strLt_asymm : ∀ (a b : List Char), strLt a b = true → strLt b a = false := by
  intro a
  induction a with
  | nil => intro b h; cases b <;> simp_all [strLt]
  | cons c cs ih =>
    intro b h
    cases b with
    | nil => simp [strLt] at h
    | cons d ds =>
      simp only [strLt] at h ⊢
      by_cases h1 : c.toNat < d.toNat
      · have : ¬ d.toNat < c.toNat := by omega
        have : d.toNat > c.toNat := h1
        simp [*]
      · simp only [h1, ↓reduceIte] at h
        by_cases h2 : c.toNat > d.toNat
        · simp [h2] at h
        · simp only [h2, ↓reduceIte] at h
          have e : c.toNat = d.toNat := by omega
          have n1 : ¬ d.toNat < c.toNat := by omega
          have n2 : ¬ d.toNat > c.toNat := by omega
          simp only [n1, ↓reduceIte, n2]
          exact ih ds h

theorem strLt_trans : ∀ (a b c : List Char), strLt a b = true → strLt b c = true → strLt a c = true := by
  intro a
  induction a with
  | nil =>
    intro b c h1 h2
    cases b with
    | nil => simp [strLt] at h1
    | cons d ds => cases c <;> simp_all [strLt]
  | cons x xs ih =>
    intro b c h1 h2
    cases b with
    | nil => simp [strLt] at h1
    | cons y ys =>
      cases c with
      | nil => simp [strLt] at h2
      | cons z zs =>
        simp only [strLt] at h1 h2 ⊢
        by_cases a1 : x.toNat < y.toNat
        · by_cases b1 : y.toNat < z.toNat
          · have : x.toNat < z.toNat := by omega
            simp [this]
          · simp only [b1, ↓reduceIte] at h2
            by_cases b2 : y.toNat > z.toNat
            · simp [b2] at h2
            · have : x.toNat < z.toNat := by omega
              simp [this]
        · simp only [a1, ↓reduceIte] at h1
          by_cases a2 : x.toNat > y.toNat
          · simp [a2] at h1
          · simp only [a2, ↓reduceIte] at h1
            have e : x.toNat = y.toNat := by omega
            by_cases b1 : y.toNat < z.toNat
            · have : x.toNat < z.toNat := by omega
              simp [this]
            · simp only [b1, ↓reduceIte] at h2
              by_cases b2 : y.toNat > z.toNat
              · simp [b2] at h2
              · simp only [b2, ↓reduceIte] at h2
                have n1 : ¬ x.toNat < z.toNat := by omega
                have n2 : ¬ x.toNat > z.toNat := by omega
                simp only [n1, ↓reduceIte, n2]
                exact ih ys zs h1 h2

theorem strLt_total : ∀ (a b : List Char), strLt a b = false → a ≠ b → strLt b a = true := by
  intro a
  induction a with
  | nil => intro b h hne; cases b <;> simp_all [strLt]
  | cons x xs ih =>
    intro b h hne
    cases b with
    | nil => simp [strLt]
    | cons y ys =>
      simp only [strLt] at h ⊢
      by_cases a1 : x.toNat < y.toNat
      · simp [a1] at h
      · simp only [a1, ↓reduceIte] at h
        by_cases a2 : x.toNat > y.toNat
        · have : y.toNat < x.toNat := a2
          simp [this]
        · simp only [a2, ↓reduceIte] at h
          have e : x.toNat = y.toNat := by omega
          have exy : x = y := Char.toNat_inj.1 e
          have n1 : ¬ y.toNat < x.toNat := by omega
          have n2 : ¬ y.toNat > x.toNat := by omega
          simp only [n1, ↓reduceIte, n2]
          apply ih ys h
          intro hxs; apply hne; rw [exy, hxs]

abbrev KV := List Char × PyVal

def keyLt (a b : KV) : Prop := strLt a.1 b.1 = true

theorem insertKV_perm (kv : KV) (l : List KV) : (insertKV kv l).Perm (kv :: l) := by
  induction l with
  | nil => simp [insertKV]
  | cons x rest ih =>
    simp only [insertKV]
    split
    · exact List.Perm.refl _
    · exact (List.Perm.cons x ih).trans (List.Perm.swap kv x rest)

theorem sortKV_perm (l : List KV) : (sortKV l).Perm l := by
  induction l with
  | nil => simp [sortKV]
  | cons x rest ih => exact (insertKV_perm x (sortKV rest)).trans (List.Perm.cons x ih)

theorem insertKV_sorted (kv : KV) (l : List KV) (hs : l.Pairwise keyLt) (hn : ∀ x ∈ l, x.1 ≠ kv.1) :
    (insertKV kv l).Pairwise keyLt := by
  induction l with
  | nil => simp [insertKV]
  | cons x rest ih =>
    simp only [insertKV]
    have hx := List.pairwise_cons.1 hs
    split
    · rename_i hlt
      refine List.pairwise_cons.2 ⟨fun y hy => ?_, hs⟩
      rcases List.mem_cons.1 hy with rfl | hy
      · exact hlt
      · exact strLt_trans _ _ _ hlt (hx.1 y hy)
    · rename_i hnlt
      have hxk : strLt x.1 kv.1 = true :=
        strLt_total kv.1 x.1 (by simpa using hnlt) (fun e => hn x (by simp) e.symm)
      refine List.pairwise_cons.2 ⟨fun y hy => ?_, ih hx.2 (fun y hy => hn y (by simp [hy]))⟩
      have := (insertKV_perm kv rest).mem_iff.1 hy
      rcases List.mem_cons.1 this with rfl | hy'
      · exact hxk
      · exact hx.1 y hy'

theorem distinctKeys_iff (ks : List (List Char)) : distinctKeys ks = true ↔ ks.Nodup := by
  induction ks with
  | nil => simp [distinctKeys]
  | cons k rest ih => simp [distinctKeys, ih, List.nodup_cons]

theorem sortKV_sorted (l : List KV) (hd : (l.map Prod.fst).Nodup) : (sortKV l).Pairwise keyLt := by
  induction l with
  | nil => simp [sortKV]
  | cons x rest ih =>
    simp only [List.map_cons, List.nodup_cons] at hd
    simp only [sortKV]
    apply insertKV_sorted x _ (ih hd.2)
    intro y hy e
    have := (sortKV_perm rest).mem_iff.1 hy
    exact hd.1 (by rw [← e]; exact List.mem_map.2 ⟨y, this, rfl⟩)

/-- sorting entries with distinct keys does not depend on the order they came in -/
theorem sortKV_perm_eq (l1 l2 : List KV) (hp : l1.Perm l2) (hd : (l1.map Prod.fst).Nodup) :
    sortKV l1 = sortKV l2 := by
  have hd2 : (l2.map Prod.fst).Nodup := (List.Perm.nodup_iff (List.Perm.map _ hp)).1 hd
  apply List.Perm.eq_of_pairwise (le := keyLt)
  · intro a b _ _ h1 h2
    have := strLt_asymm _ _ h1
    rw [h2] at this; cases this
  · exact sortKV_sorted l1 hd
  · exact sortKV_sorted l2 hd2
  · exact (sortKV_perm l1).trans (hp.trans (sortKV_perm l2).symm)

theorem canonKVs_keys (kvs : List KV) : (canonKVs kvs).map Prod.fst = kvs.map Prod.fst := by
  induction kvs with
  | nil => simp [canonKVs]
  | cons x rest ih => obtain ⟨k, v⟩ := x; simp [canonKVs, ih]

theorem canonKVs_perm {a b : List KV} (hp : a.Perm b) : (canonKVs a).Perm (canonKVs b) := by
  induction hp with
  | nil => simp [canonKVs]
  | cons x _ ih => obtain ⟨k, v⟩ := x; simp only [canonKVs]; exact List.Perm.cons _ ih
  | swap x y l =>
    obtain ⟨k, v⟩ := x; obtain ⟨k', v'⟩ := y
    simp only [canonKVs]; exact List.Perm.swap _ _ _
  | trans _ _ ih1 ih2 => exact ih1.trans ih2

mutual
theorem beqVal_iff : ∀ (a b : PyVal), beqVal a b = true ↔ a = b
  | .none, b => by cases b <;> simp [beqVal]
  | .bool x, b => by cases b <;> simp [beqVal]
  | .int x, b => by cases b <;> simp [beqVal]
  | .flt x e, b => by cases b <;> simp [beqVal]
  | .str x, b => by cases b <;> simp [beqVal]
  | .list x, b => by cases b <;> simp [beqVal, beqList_iff x]
  | .tuple x, b => by cases b <;> simp [beqVal, beqList_iff x]
  | .dict x, b => by cases b <;> simp [beqVal, beqKVs_iff x]
theorem beqList_iff : ∀ (a b : List PyVal), beqList a b = true ↔ a = b
  | [], b => by cases b <;> simp [beqList]
  | x :: xs, b => by
    cases b with
    | nil => simp [beqList]
    | cons y ys => simp [beqList, beqVal_iff x y, beqList_iff xs ys]
theorem beqKVs_iff : ∀ (a b : List KV), beqKVs a b = true ↔ a = b
  | [], b => by cases b <;> simp [beqKVs]
  | (k, v) :: xs, b => by
    cases b with
    | nil => simp [beqKVs]
    | cons y ys =>
      obtain ⟨k', v'⟩ := y
      simp [beqKVs, beqVal_iff v v', beqKVs_iff xs ys, and_assoc]
end

end Vakt
