import Model.RuleCodec
import Props.C09
/-!
# `decRule ∘ encRule = some` on well-formed rules
-/
namespace Vakt.RuleCodec
open Vakt PyVal Serialize

theorem clsIndex_cls : ∀ i : Fin 34, clsIndex (cls i.val) = i.val := by decide +kernel

/-- the class paths are pairwise different (so the class path determines the constructor) -/
theorem classes_nodup : classes.Nodup := by decide +kernel

theorem kVal_ne : (kVal = Generated.objectTag) = False := by
  simp only [eq_iff_iff, iff_false]; decide +kernel
theorem kCi_ne : (kCi = Generated.objectTag) = False := by
  simp only [eq_iff_iff, iff_false]; decide +kernel
theorem kCi_ne_val : (kCi = kVal) = False := by
  simp only [eq_iff_iff, iff_false]; decide +kernel
theorem kData_ne : (kData = Generated.objectTag) = False := by
  simp only [eq_iff_iff, iff_false]; decide +kernel
theorem kRules_ne : (kRules = Generated.objectTag) = False := by
  simp only [eq_iff_iff, iff_false]; decide +kernel
theorem kRule_ne : (kRule = Generated.objectTag) = False := by
  simp only [eq_iff_iff, iff_false]; decide +kernel
theorem kRegex_ne : (kRegex = Generated.objectTag) = False := by
  simp only [eq_iff_iff, iff_false]; decide +kernel
theorem kPattern_ne : (kPattern = Generated.objectTag) = False := by
  simp only [eq_iff_iff, iff_false]; decide +kernel
theorem kCidr_ne : (kCidr = Generated.objectTag) = False := by
  simp only [eq_iff_iff, iff_false]; decide +kernel
theorem kAttribute_ne : (kAttribute = Generated.objectTag) = False := by
  simp only [eq_iff_iff, iff_false]; decide +kernel
theorem kAnswer_ne : (kAnswer = Generated.objectTag) = False := by
  simp only [eq_iff_iff, iff_false]; decide +kernel

theorem tagTuple_reserved : (Generated.reservedTags.map String.toList).contains tagTuple = true := by decide +kernel

mutual
theorem noReserved_noTags : ∀ v : PyVal, noReserved v = true → noTags v = true
  | .none, _ => rfl
  | .bool _, _ => rfl
  | .int _, _ => rfl
  | .flt _ _, _ => rfl
  | .str _, _ => rfl
  | .list xs, h => by simp only [noReserved] at h; simp only [noTags]; exact noReservedList_noTags xs h
  | .tuple xs, h => by simp only [noReserved] at h; simp only [noTags]; exact noReservedList_noTags xs h
  | .dict kvs, h => by simp only [noReserved] at h; simp only [noTags]; exact noReservedKVs_noTags kvs h
theorem noReservedList_noTags : ∀ xs : List PyVal, noReservedList xs = true → noTagsList xs = true
  | [], _ => rfl
  | x :: xs, h => by
    simp only [noReservedList, Bool.and_eq_true] at h
    simp only [noTagsList, Bool.and_eq_true]
    exact ⟨noReserved_noTags x h.1, noReservedList_noTags xs h.2⟩
theorem noReservedKVs_noTags : ∀ kvs : List (List Char × PyVal), noReservedKVs kvs = true → noTagsKVs kvs = true
  | [], _ => rfl
  | (k, v) :: rest, h => by
    simp only [noReservedKVs, Bool.and_eq_true, Bool.not_eq_true'] at h
    simp only [noTagsKVs, Bool.and_eq_true, bne_iff_ne, ne_eq]
    refine ⟨⟨?_, noReserved_noTags v h.1.2⟩, noReservedKVs_noTags rest h.2⟩
    intro e
    subst e
    rw [tagTuple_reserved] at h
    exact absurd h.1.1 (by simp)
end

theorem dec_enc_val' (v : PyVal) (h : noReserved v = true) : decVal (encVal v) = v :=
  C09.dec_enc_val v (noReserved_noTags v h)

theorem dec_enc_list' (d : List PyVal) (h : noReservedList d = true) : decList (encList d) = d :=
  C09.dec_enc_list d (noReservedList_noTags d h)

theorem encVal_ne_none (v : PyVal) (h : v ≠ .none) : encVal v ≠ .none := by
  cases v <;> simp_all [encVal]

theorem getSet_enc (d : List PyVal) (h : noReservedList d = true) (c : PyVal) :
    getSet [(Generated.objectTag, c), (kData, .dict [(tagSet, .list (encList d))])] = some d := by
  simp only [getSet, lookup, kData_ne, ↓reduceIte, dec_enc_list' d h]

theorem getStrCi_enc (v : List Char) (ci : Bool) (c : PyVal) :
    getStrCi [(Generated.objectTag, c), (kVal, .str v), (kCi, .bool ci)] = some (v, ci) := by
  simp only [getStrCi, lookup, kVal_ne, kCi_ne, kCi_ne_val, ↓reduceIte]

theorem getAttr_enc (a : Option PyVal) (h : attrWf a = true) (c : PyVal) :
    getAttr [(Generated.objectTag, c), (kAttribute, encAttr a)] = some a := by
  cases a with
  | none => simp only [getAttr, encAttr, lookup, kAttribute_ne, ↓reduceIte]
  | some v =>
    have hv : v ≠ .none := by intro e; subst e; simp [attrWf] at h
    have hr : noReserved v = true := by cases v <;> simp_all [attrWf]
    have hne := encVal_ne_none v hv
    simp only [getAttr, encAttr, lookup, kAttribute_ne, ↓reduceIte]
    rw [dec_enc_val' v hr]

theorem max_le_iff' {a b n : Nat} : max a b ≤ n ↔ a ≤ n ∧ b ≤ n := by omega

set_option maxHeartbeats 400000 in
mutual
theorem dec_enc_rule : ∀ (r : Rule), Rule.wf r = true → ∀ n, Rule.depth r ≤ n → decRule n (encRule r) = some r
  | .eq v, h, n, hd => by
    cases n with
    | zero => simp [Rule.depth] at hd
    | succ m =>
      simp only [Rule.wf] at h
      simp only [encRule, obj, decRule, lookup, ↓reduceIte, kVal_ne, clsIndex_cls ⟨0, by omega⟩, Option.map, dec_enc_val' v h]
  | .notEq v, h, n, hd => by
    cases n with
    | zero => simp [Rule.depth] at hd
    | succ m =>
      simp only [Rule.wf] at h
      simp only [encRule, obj, decRule, lookup, ↓reduceIte, kVal_ne, clsIndex_cls ⟨1, by omega⟩, Option.map, dec_enc_val' v h]
  | .greater v, h, n, hd => by
    cases n with
    | zero => simp [Rule.depth] at hd
    | succ m =>
      simp only [Rule.wf] at h
      simp only [encRule, obj, decRule, lookup, ↓reduceIte, kVal_ne, clsIndex_cls ⟨2, by omega⟩, Option.map, dec_enc_val' v h]
  | .less v, h, n, hd => by
    cases n with
    | zero => simp [Rule.depth] at hd
    | succ m =>
      simp only [Rule.wf] at h
      simp only [encRule, obj, decRule, lookup, ↓reduceIte, kVal_ne, clsIndex_cls ⟨3, by omega⟩, Option.map, dec_enc_val' v h]
  | .greaterOrEqual v, h, n, hd => by
    cases n with
    | zero => simp [Rule.depth] at hd
    | succ m =>
      simp only [Rule.wf] at h
      simp only [encRule, obj, decRule, lookup, ↓reduceIte, kVal_ne, clsIndex_cls ⟨4, by omega⟩, Option.map, dec_enc_val' v h]
  | .lessOrEqual v, h, n, hd => by
    cases n with
    | zero => simp [Rule.depth] at hd
    | succ m =>
      simp only [Rule.wf] at h
      simp only [encRule, obj, decRule, lookup, ↓reduceIte, kVal_ne, clsIndex_cls ⟨5, by omega⟩, Option.map, dec_enc_val' v h]
  | .isIn d, h, n, hd => by
    cases n with
    | zero => simp [Rule.depth] at hd
    | succ m =>
      simp only [Rule.wf] at h
      simp only [encRule, obj, decRule, lookup, ↓reduceIte, clsIndex_cls ⟨6, by omega⟩, getSet_enc d h, Option.map]
  | .notIn d, h, n, hd => by
    cases n with
    | zero => simp [Rule.depth] at hd
    | succ m =>
      simp only [Rule.wf] at h
      simp only [encRule, obj, decRule, lookup, ↓reduceIte, clsIndex_cls ⟨7, by omega⟩, getSet_enc d h, Option.map]
  | .allIn d, h, n, hd => by
    cases n with
    | zero => simp [Rule.depth] at hd
    | succ m =>
      simp only [Rule.wf] at h
      simp only [encRule, obj, decRule, lookup, ↓reduceIte, clsIndex_cls ⟨8, by omega⟩, getSet_enc d h, Option.map]
  | .allNotIn d, h, n, hd => by
    cases n with
    | zero => simp [Rule.depth] at hd
    | succ m =>
      simp only [Rule.wf] at h
      simp only [encRule, obj, decRule, lookup, ↓reduceIte, clsIndex_cls ⟨9, by omega⟩, getSet_enc d h, Option.map]
  | .anyIn d, h, n, hd => by
    cases n with
    | zero => simp [Rule.depth] at hd
    | succ m =>
      simp only [Rule.wf] at h
      simp only [encRule, obj, decRule, lookup, ↓reduceIte, clsIndex_cls ⟨10, by omega⟩, getSet_enc d h, Option.map]
  | .anyNotIn d, h, n, hd => by
    cases n with
    | zero => simp [Rule.depth] at hd
    | succ m =>
      simp only [Rule.wf] at h
      simp only [encRule, obj, decRule, lookup, ↓reduceIte, clsIndex_cls ⟨11, by omega⟩, getSet_enc d h, Option.map]
  | .truthy, _, n, hd => by
    cases n with
    | zero => simp [Rule.depth] at hd
    | succ m => simp only [encRule, obj, decRule, lookup, ↓reduceIte, clsIndex_cls ⟨12, by omega⟩]
  | .falsy, _, n, hd => by
    cases n with
    | zero => simp [Rule.depth] at hd
    | succ m => simp only [encRule, obj, decRule, lookup, ↓reduceIte, clsIndex_cls ⟨13, by omega⟩]
  | .and rs, h, n, hd => by
    cases n with
    | zero => simp [Rule.depth] at hd
    | succ m =>
      simp only [Rule.wf] at h
      simp only [Rule.depth, Nat.add_le_add_iff_right] at hd
      have ih := dec_enc_rules rs h m hd
      simp only [encRule, obj, decRule, lookup, ↓reduceIte, kRules_ne, clsIndex_cls ⟨14, by omega⟩, ih, Option.map]
  | .or rs, h, n, hd => by
    cases n with
    | zero => simp [Rule.depth] at hd
    | succ m =>
      simp only [Rule.wf] at h
      simp only [Rule.depth, Nat.add_le_add_iff_right] at hd
      have ih := dec_enc_rules rs h m hd
      simp only [encRule, obj, decRule, lookup, ↓reduceIte, kRules_ne, clsIndex_cls ⟨15, by omega⟩, ih, Option.map]
  | .not r, h, n, hd => by
    cases n with
    | zero => simp [Rule.depth] at hd
    | succ m =>
      simp only [Rule.wf] at h
      simp only [Rule.depth, Nat.add_le_add_iff_right] at hd
      have ih := dec_enc_rule r h m hd
      simp only [encRule, obj, decRule, lookup, ↓reduceIte, kRule_ne, clsIndex_cls ⟨16, by omega⟩, ih, Option.map]
  | .any, _, n, hd => by
    cases n with
    | zero => simp [Rule.depth] at hd
    | succ m => simp only [encRule, obj, decRule, lookup, ↓reduceIte, clsIndex_cls ⟨17, by omega⟩]
  | .neither, _, n, hd => by
    cases n with
    | zero => simp [Rule.depth] at hd
    | succ m => simp only [encRule, obj, decRule, lookup, ↓reduceIte, clsIndex_cls ⟨18, by omega⟩]
  | .strEqual v ci, _, n, hd => by
    cases n with
    | zero => simp [Rule.depth] at hd
    | succ m => simp only [encRule, obj, decRule, lookup, ↓reduceIte, clsIndex_cls ⟨19, by omega⟩, getStrCi_enc, Option.map]
  | .startsWith v ci, _, n, hd => by
    cases n with
    | zero => simp [Rule.depth] at hd
    | succ m => simp only [encRule, obj, decRule, lookup, ↓reduceIte, clsIndex_cls ⟨20, by omega⟩, getStrCi_enc, Option.map]
  | .endsWith v ci, _, n, hd => by
    cases n with
    | zero => simp [Rule.depth] at hd
    | succ m => simp only [encRule, obj, decRule, lookup, ↓reduceIte, clsIndex_cls ⟨21, by omega⟩, getStrCi_enc, Option.map]
  | .contains v ci, _, n, hd => by
    cases n with
    | zero => simp [Rule.depth] at hd
    | succ m => simp only [encRule, obj, decRule, lookup, ↓reduceIte, clsIndex_cls ⟨22, by omega⟩, getStrCi_enc, Option.map]
  | .pairsEqual, _, n, hd => by
    cases n with
    | zero => simp [Rule.depth] at hd
    | succ m => simp only [encRule, obj, decRule, lookup, ↓reduceIte, clsIndex_cls ⟨23, by omega⟩]
  | .regexMatch p, _, n, hd => by
    cases n with
    | zero => simp [Rule.depth] at hd
    | succ m =>
      simp only [encRule, obj, decRule, lookup, ↓reduceIte, kRegex_ne, kPattern_ne, clsIndex_cls ⟨24, by omega⟩]
  | .cidr c, h, n, hd => by
    cases n with
    | zero => simp [Rule.depth] at hd
    | succ m =>
      simp only [Rule.wf] at h
      simp only [encRule, obj, decRule, lookup, ↓reduceIte, kCidr_ne, clsIndex_cls ⟨25, by omega⟩, Option.map, dec_enc_val' c h]
  | .inqMatch f a, h, n, hd => by
    cases n with
    | zero => simp [Rule.depth] at hd
    | succ m =>
      simp only [Rule.wf] at h
      cases f
      · simp only [encRule, obj, fieldIdx, decRule, lookup, ↓reduceIte, clsIndex_cls ⟨26, by omega⟩, getAttr_enc a h, Option.map]
      · simp only [encRule, obj, fieldIdx, decRule, lookup, ↓reduceIte, clsIndex_cls ⟨27, by omega⟩, getAttr_enc a h, Option.map]
      · simp only [encRule, obj, fieldIdx, decRule, lookup, ↓reduceIte, clsIndex_cls ⟨28, by omega⟩, getAttr_enc a h, Option.map]
  | .subjectEqual, _, n, hd => by
    cases n with
    | zero => simp [Rule.depth] at hd
    | succ m => simp only [encRule, obj, decRule, lookup, ↓reduceIte, clsIndex_cls ⟨29, by omega⟩]
  | .actionEqual, _, n, hd => by
    cases n with
    | zero => simp [Rule.depth] at hd
    | succ m => simp only [encRule, obj, decRule, lookup, ↓reduceIte, clsIndex_cls ⟨30, by omega⟩]
  | .resourceIn, _, n, hd => by
    cases n with
    | zero => simp [Rule.depth] at hd
    | succ m => simp only [encRule, obj, decRule, lookup, ↓reduceIte, clsIndex_cls ⟨31, by omega⟩]
  | .raising, _, n, hd => by
    cases n with
    | zero => simp [Rule.depth] at hd
    | succ m => simp only [encRule, obj, decRule, lookup, ↓reduceIte, clsIndex_cls ⟨32, by omega⟩]
  | .constant b, _, n, hd => by
    cases n with
    | zero => simp [Rule.depth] at hd
    | succ m => simp only [encRule, obj, decRule, lookup, ↓reduceIte, kAnswer_ne, clsIndex_cls ⟨33, by omega⟩]
theorem dec_enc_rules : ∀ (rs : List Rule), wfList rs = true → ∀ n, depthList rs ≤ n →
    mapOpt (decRule n) (encRules rs) = some rs
  | [], _, _, _ => rfl
  | r :: rs, h, n, hd => by
    simp only [wfList, Bool.and_eq_true] at h
    simp only [depthList, max_le_iff'] at hd
    simp only [encRules, mapOpt, dec_enc_rule r h.1 n hd.1, dec_enc_rules rs h.2 n hd.2]
end

end Vakt.RuleCodec

namespace Vakt.RuleCodec
open Vakt PyVal Serialize

theorem encRule_obj (r : Rule) : ∃ i attrs, encRule r = obj i attrs := by
  cases r <;> simp only [encRule] <;> exact ⟨_, _, rfl⟩

theorem dec_enc_attrs : ∀ (kvs : List (List Char × AttrVal)), attrsWf kvs = true → ∀ n, attrsDepth kvs ≤ n →
    decAttrs n (encAttrs kvs) = some kvs
  | [], _, _, _ => rfl
  | (k, .rule r) :: rest, h, n, hd => by
    simp only [attrsWf, Bool.and_eq_true] at h
    simp only [attrsDepth, max_le_iff'] at hd
    simp only [encAttrs, decAttrs, dec_enc_rule r h.1.2 n hd.1, dec_enc_attrs rest h.2 n hd.2]
  | (k, .junk) :: rest, h, _, _ => by simp [attrsWf] at h

theorem lookup_obj_encAttrs : ∀ (kvs : List (List Char × AttrVal)), attrsWf kvs = true →
    lookup Generated.objectTag (encAttrs kvs) = Option.none
  | [], _ => rfl
  | (k, .rule r) :: rest, h => by
    simp only [attrsWf, Bool.and_eq_true, bne_iff_ne, ne_eq] at h
    have hk : ¬ Generated.objectTag = k := fun e => h.1.1 e.symm
    simp only [encAttrs, lookup, hk, ↓reduceIte]
    exact lookup_obj_encAttrs rest h.2
  | (k, .junk) :: rest, h => by simp [attrsWf] at h

theorem dec_enc_elem (e : Elem) (h : Elem.wf e = true) (n : Nat) (hd : Elem.depth e ≤ n) :
    decElem n (encElem e) = some e := by
  cases e with
  | str s => rfl
  | rule r =>
    simp only [Elem.wf] at h
    simp only [Elem.depth] at hd
    obtain ⟨i, attrs, hr⟩ := encRule_obj r
    have hrt := dec_enc_rule r h n hd
    simp only [encElem]
    rw [hr] at hrt ⊢
    simp only [obj] at hrt ⊢
    simp only [decElem, lookup, ↓reduceIte, Option.isSome_some, hrt, Option.map]
  | attrs kvs =>
    simp only [Elem.wf] at h
    simp only [Elem.depth] at hd
    simp only [encElem, decElem, lookup_obj_encAttrs kvs h, Option.isSome_none, Bool.false_eq_true, ↓reduceIte,
      dec_enc_attrs kvs h n hd, Option.map]

theorem dec_enc_elems : ∀ (es : List Elem), elemsWf es = true → ∀ n, elemsDepth es ≤ n →
    mapOpt (decElem n) (es.map encElem) = some es
  | [], _, _, _ => rfl
  | e :: es, h, n, hd => by
    simp only [elemsWf, Bool.and_eq_true] at h
    simp only [elemsDepth, max_le_iff'] at hd
    simp only [List.map_cons, mapOpt, dec_enc_elem e h.1 n hd.1, dec_enc_elems es h.2 n hd.2]

end Vakt.RuleCodec
