import Model.TagParser
/-!
# The scanner implements the grammar `Lit (Seg Lit)*`
-/
namespace Vakt.TagParser

/-- relative nesting depth after reading a segment body from depth `n`; `none` if it closes below 0 -/
def bodyLevel (s t : Char) : List Char → Nat → Option Nat
  | [], n => some n
  | c :: cs, n =>
    if c = s then bodyLevel s t cs (n + 1)
    else if c = t then (match n with | 0 => none | m + 1 => bodyLevel s t cs m)
    else bodyLevel s t cs n

def noTags (s t : Char) (l : List Char) : Prop := ∀ c ∈ l, c ≠ s ∧ c ≠ t

/-- the independent grammar: literals without delimiters alternating with depth-balanced bodies -/
inductive Decomp (s t : Char) : List Piece → Prop
  | last (l : List Char) : noTags s t l → Decomp s t [Piece.lit l]
  | cons (l x : List Char) (rest : List Piece) : noTags s t l → bodyLevel s t x 0 = some 0 →
      Decomp s t rest → Decomp s t (Piece.lit l :: Piece.seg x :: rest)

theorem bodyLevel_append (s t : Char) (a b : List Char) (n : Nat) :
    bodyLevel s t (a ++ b) n = (bodyLevel s t a n).bind (bodyLevel s t b) := by
  induction a generalizing n with
  | nil => simp [bodyLevel]
  | cons c cs ih =>
    simp only [List.cons_append, bodyLevel]
    split
    · exact ih _
    · split
      · cases n with
        | zero => simp
        | succ m => exact ih _
      · exact ih _

theorem render_append (s t : Char) (a b : List Piece) : render s t (a ++ b) = render s t a ++ render s t b := by
  induction a with
  | nil => simp [render]
  | cons p ps ih => cases p <;> simp [render, ih]

/-- soundness, text part: the pieces re-assemble to what was read (generalised over the scanner state) -/
theorem scanAux_render (s t : Char) (e : List Char) :
    ∀ level cur acc ps, scanAux s t e level cur acc = some ps →
      render s t ps = render s t acc ++ (if level = 0 then cur else s :: cur) ++ e := by
  induction e with
  | nil =>
    intro level cur acc ps h
    cases level with
    | zero => simp [scanAux] at h; subst h; simp [render_append, render]
    | succ n => simp [scanAux] at h
  | cons c cs ih =>
    intro level cur acc ps h
    cases level with
    | zero =>
      simp only [scanAux] at h
      split at h
      · rename_i hc
        have := ih _ _ _ _ h
        simp [render_append, render] at this ⊢
        rw [this, hc]
      · split at h
        · cases h
        · have := ih _ _ _ _ h
          simp at this ⊢
          rw [this]
    | succ n =>
      simp only [scanAux] at h
      split at h
      · have := ih _ _ _ _ h
        simp at this ⊢
        rw [this]
      · split at h
        · rename_i hc
          split at h
          · have := ih _ _ _ _ h
            simp [render_append, render] at this ⊢
            rw [this, hc]
          · rename_i hn
            have := ih _ _ _ _ h
            have hn' : n ≠ 0 := hn
            simp [hn'] at this ⊢
            rw [this]
        · have := ih _ _ _ _ h
          simp at this ⊢
          rw [this]

theorem noTags_snoc {s t : Char} {l : List Char} {c : Char} (h : noTags s t l) (h1 : c ≠ s) (h2 : c ≠ t) :
    noTags s t (l ++ [c]) := by
  intro x hx
  rcases List.mem_append.1 hx with hx | hx
  · exact h x hx
  · simp at hx; subst hx; exact ⟨h1, h2⟩

/-- soundness, structure part (both scanner modes at once) -/
theorem scanAux_decomp (s t : Char) (e : List Char) :
    (∀ cur acc ps, noTags s t cur → scanAux s t e 0 cur acc = some ps →
        ∃ tail, ps = acc ++ tail ∧ Decomp s t tail) ∧
    (∀ n cur acc ps, bodyLevel s t cur 0 = some n → scanAux s t e (n + 1) cur acc = some ps →
        ∃ x tail, ps = acc ++ Piece.seg x :: tail ∧ bodyLevel s t x 0 = some 0 ∧ Decomp s t tail) := by
  induction e with
  | nil =>
    constructor
    · intro cur acc ps hc h
      simp [scanAux] at h; subst h
      exact ⟨[Piece.lit cur], rfl, Decomp.last cur hc⟩
    · intro n cur acc ps _ h
      simp [scanAux] at h
  | cons c cs ih =>
    obtain ⟨ih0, ih1⟩ := ih
    constructor
    · intro cur acc ps hc h
      simp only [scanAux] at h
      split at h
      · obtain ⟨x, tail, hps, hx, hd⟩ := ih1 0 [] _ ps (by simp [bodyLevel]) h
        exact ⟨Piece.lit cur :: Piece.seg x :: tail, by simp [hps], Decomp.cons cur x tail hc hx hd⟩
      · split at h
        · cases h
        · rename_i h1 h2
          exact ih0 _ _ _ (noTags_snoc hc h1 h2) h
    · intro n cur acc ps hb h
      simp only [scanAux] at h
      split at h
      · rename_i hcs
        have : bodyLevel s t (cur ++ [c]) 0 = some (n + 1) := by
          rw [bodyLevel_append, hb]; simp [bodyLevel, hcs]
        exact ih1 (n + 1) _ _ _ this h
      · rename_i hcs
        split at h
        · rename_i hct
          split at h
          · rename_i hn
            subst hn
            obtain ⟨tail, hps, hd⟩ := ih0 [] _ ps (by intro x hx; simp at hx) h
            exact ⟨cur, tail, by simp [hps], hb, hd⟩
          · rename_i hn
            obtain ⟨m, rfl⟩ := Nat.exists_eq_succ_of_ne_zero hn
            have : bodyLevel s t (cur ++ [c]) 0 = some m := by
              subst hct
              rw [bodyLevel_append, hb]; simp [bodyLevel, hcs]
            exact ih1 m _ _ _ this h
        · rename_i hct
          have : bodyLevel s t (cur ++ [c]) 0 = some n := by
            rw [bodyLevel_append, hb]; simp [bodyLevel, hcs, hct]
          exact ih1 n _ _ _ this h

/-- completeness helper: a literal run is read in literal mode -/
theorem scanAux_lit (s t : Char) (l rest : List Char) (cur : List Char) (acc : List Piece) (h : noTags s t l) :
    scanAux s t (l ++ rest) 0 cur acc = scanAux s t rest 0 (cur ++ l) acc := by
  induction l generalizing cur with
  | nil => simp
  | cons c cs ih =>
    have hc := h c (by simp)
    simp only [List.cons_append, scanAux, hc.1, hc.2, ↓reduceIte]
    rw [ih _ (fun x hx => h x (by simp [hx]))]
    simp

/-- completeness helper: a body is read in segment mode, tracking the relative depth -/
theorem scanAux_body (s t : Char) (hst : s ≠ t) (x rest : List Char) :
    ∀ n m cur acc, bodyLevel s t x n = some m →
      scanAux s t (x ++ rest) (n + 1) cur acc = scanAux s t rest (m + 1) (cur ++ x) acc := by
  induction x with
  | nil => intro n m cur acc h; simp [bodyLevel] at h; subst h; simp
  | cons c cs ih =>
    intro n m cur acc h
    simp only [bodyLevel] at h
    simp only [List.cons_append, scanAux]
    split
    · rename_i hcs
      simp only [hcs, ↓reduceIte] at h
      rw [ih _ _ _ _ h]; simp
    · rename_i hcs
      simp only [hcs, ↓reduceIte] at h
      split
      · rename_i hct
        simp only [hct, ↓reduceIte] at h
        cases n with
        | zero => simp at h
        | succ k =>
          simp only [Nat.add_eq_zero_iff, Nat.succ_ne_self, and_false, ↓reduceIte, reduceCtorEq]
          simp only at h
          rw [ih _ _ _ _ h]; simp
      · rename_i hct
        simp only [hct, ↓reduceIte] at h
        rw [ih _ _ _ _ h]; simp

/-- completeness (generalised over the accumulator) -/
theorem scanAux_complete (s t : Char) (hst : s ≠ t) (ps : List Piece) (hd : Decomp s t ps) :
    ∀ acc, ∃ l0 rest, ps = Piece.lit l0 :: rest ∧
      ∀ cur, noTags s t cur →
        scanAux s t (render s t ps) 0 cur acc = some (acc ++ Piece.lit (cur ++ l0) :: rest) := by
  induction hd with
  | last l hl =>
    intro acc
    refine ⟨l, [], rfl, fun cur _ => ?_⟩
    have := scanAux_lit s t l [] cur acc hl
    simp only [List.append_nil] at this
    simp [render, this, scanAux]
  | cons l x rest hl hx _ ih =>
    intro acc
    refine ⟨l, Piece.seg x :: rest, rfl, fun cur _ => ?_⟩
    simp only [render]
    rw [scanAux_lit s t l _ cur acc hl]
    simp only [List.cons_append, scanAux, ↓reduceIte]
    have hb := scanAux_body s t hst x (t :: render s t rest) 0 0 [] (acc ++ [Piece.lit (cur ++ l)]) hx
    rw [hb]
    simp only [scanAux, (Ne.symm hst), ↓reduceIte, List.nil_append]
    obtain ⟨l0, rest', hrest, hscan⟩ := ih (acc ++ [Piece.lit (cur ++ l)] ++ [Piece.seg x])
    have := hscan [] (by intro c hc; simp at hc)
    rw [this, hrest]
    simp

end Vakt.TagParser
