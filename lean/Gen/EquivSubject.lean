import Gen.Subject
import Gen.Lemmas
/-!
# The translated publisher (`vakt.util.Subject`) notifies every attached listener exactly once

`Gen/Subject.lean` is produced from `/repo/vakt/util.py` on every run.  `ObservableMutationStorage` (translated: `Gen/Observable.lean`)
ends every successful mutation with one `self.notify()`; what that call does is stated here for the source as it stands: **each
attached listener receives exactly one `update()`, in the order of attachment, and the list of listeners is left as it was**; attaching
appends, detaching removes the first equal listener (and raises when there is none).  With the one listener `create_cached_guard`
attaches, one notification is one invalidation of the decision cache (C11).
-/
namespace Vakt.GenEquiv
open Vakt PyVal Vakt.PyPrim Vakt.GenSubject

theorem gen_subject_init (self junk : V) (calls : List PyVal) :
    init_Subject self (.seq [junk, .py (.list calls)]) = .ok (.seq [.py .none, subjW [] calls]) := rfl

theorem gen_add_listener (self : V) (v : PyVal) (ls calls : List PyVal) :
    add_listener_Subject self (.py v) (subjW ls calls) = .ok (.seq [.py .none, subjW (ls ++ [v]) calls]) := rfl

theorem gen_remove_listener (self : V) (n : Int) (ls calls : List PyVal) :
    remove_listener_Subject self (.py (.int n)) (subjW ls calls) =
      (match eraseFirstId n ls with
       | some ls' => .ok (.seq [.py .none, subjW ls' calls])
       | Option.none => raiseM) := by
  simp only [remove_listener_Subject, listenerRemoveM, pure_ok, bindM_ok, subjW]
  cases eraseFirstId n ls <;> rfl

/-- one iteration of the loop of `notify` -/
def notifyBody : V → List V → (List V → M) → (List V → M) → M := fun l1_listener s1 k1 b1 =>
      (listenerUpdateM (pure l1_listener) (pure (stGet s1 0)) fun w2 =>
      (k1 [w2]))

def notifyDone : List V → M := fun r1 => (pairM cNone (pure (stGet r1 0)))

theorem notify_loop (all : List PyVal) : ∀ (rest calls : List PyVal),
    loopS (rest.map V.py) notifyBody [subjW all calls] notifyDone = .ok (.seq [.py .none, subjW all (calls ++ rest)]) := by
  intro rest
  induction rest with
  | nil => intro calls; simp [loopS, notifyDone, pairM, cNone, stGet, bindM]
  | cons v tail ih =>
    intro calls
    simp only [List.map_cons, loopS, notifyBody, listenerUpdateM, pure_ok, bindM_ok, stGet, subjW]
    have := ih (calls ++ [v])
    simp only [subjW, List.append_assoc, List.singleton_append] at this
    exact this

/-- **`notify` as written in the source**: every attached listener is updated exactly once, in order; the listeners stay -/
theorem gen_notify (self : V) (ls calls : List PyVal) :
    notify_Subject self (subjW ls calls) = .ok (.seq [.py .none, subjW ls (calls ++ ls)]) := by
  have e : notify_Subject self (subjW ls calls) = loopS (ls.map V.py) notifyBody [subjW ls calls] notifyDone := rfl
  rw [e, notify_loop]

/-- the number of `update()` calls a listener has received -/
def updatesOf (n : Int) (calls : List PyVal) : Nat := (calls.filter fun c => match c with | .int m => m == n | _ => false).length

/-- with one attached listener (what `create_cached_guard` sets up), a notification is exactly one more `update()` of it -/
theorem notify_single_listener (self : V) (n : Int) (calls : List PyVal) :
    notify_Subject self (subjW [.int n] calls) = .ok (.seq [.py .none, subjW [.int n] (calls ++ [.int n])]) ∧
    updatesOf n (calls ++ [.int n]) = updatesOf n calls + 1 := by
  refine ⟨gen_notify self [.int n] calls, ?_⟩
  simp [updatesOf, List.filter_append]

theorem translatedSubject_covers :
    translatedSubject = ["Subject.__init__", "Subject.add_listener", "Subject.remove_listener", "Subject.notify"] := by decide

end Vakt.GenEquiv
