import Gen.Allowance
import Gen.Lemmas
/-!
# The translated `AllowanceCache.__init__` wraps `is_allowed_check` and nothing else

`Gen/Allowance.lean` is produced from `/repo/vakt/cache.py` on every run.  The initialiser is given two objects - the cache object being
initialised and the guard - and writes attributes on both.  For the source as it stands, for every guard that has an
`is_allowed_check` and every other attribute whatsoever: the guard leaves with **exactly one attribute changed**, `is_allowed_check`,
now the old one behind the back-end's cache; `is_allowed` (the method that writes the decision log, C17) and every other attribute
are what they were.  The back-end is the one passed in, or a new `LRUCache` of the capacity given as `maxsize`.
-/
namespace Vakt.GenEquiv
open Vakt PyVal Vakt.PyPrim Vakt.GenAllowance

theorem objGet_objSet_self (n : String) (v : V) : ∀ fs, objGet n (objSet n v fs) = some v := by
  intro fs
  induction fs with
  | nil => simp [objSet, objGet]
  | cons p rest ih =>
    obtain ⟨m, w⟩ := p
    by_cases h : m = n
    · simp [objSet, objGet, h]
    · simp [objSet, objGet, h, ih]

theorem objGet_objSet_ne (n m : String) (v : V) (hne : n ≠ m) : ∀ fs, objGet m (objSet n v fs) = objGet m fs := by
  intro fs
  induction fs with
  | nil => simp [objSet, objGet, hne]
  | cons p rest ih =>
    obtain ⟨q, w⟩ := p
    by_cases h : q = n
    · subst h
      simp [objSet, objGet, hne]
    · by_cases h2 : q = m
      · subst h2
        simp [objSet, objGet, h]
      · simp [objSet, objGet, h, h2, ih]

/-- the guard as `AllowanceCache.__init__` leaves it -/
def guardAfter (gfs : List (String × V)) (backend chk : V) : V :=
  .obj (objSet "is_allowed_check" (.seq [wrappedTag, backend, chk]) gfs)

/-- the cache object as it leaves -/
def cacheObjAfter (sfs : List (String × V)) (kw backend : V) : V :=
  .obj (objSet "cache" backend (objSet "options" kw sfs))

/-- what both branches end in -/
theorem init_tail (fs1 gfs : List (String × V)) (b chk : V) (hchk : objGet "is_allowed_check" gfs = some chk) :
    (objSetS (pure (.obj fs1)) "cache" (.ok b) fun o4 =>
      (objSetS (pure (.obj gfs)) "is_allowed_check" (wrapM (objAttrM (pure o4) "cache") (objAttrM (pure (.obj gfs)) "is_allowed_check")) fun o5 =>
      (pairM (pure o4) (pure o5)))) =
    .ok (.seq [.obj (objSet "cache" b fs1), guardAfter gfs b chk]) := by
  simp only [objSetS, pure_ok, bindM_ok, objAttrM, objGet_objSet_self, hchk, wrapM, pairM, guardAfter]

/-- **`AllowanceCache.__init__` as written in the source, a back-end passed in** -/
theorem gen_allowance_init_backend (sfs gfs : List (String × V)) (b chk kw : V)
    (hb : isNoneM (.ok b) = ofBool false) (hchk : objGet "is_allowed_check" gfs = some chk) :
    init_AllowanceCache (.obj sfs) (.obj gfs) b kw = .ok (.seq [cacheObjAfter sfs kw b, guardAfter gfs b chk]) := by
  unfold init_AllowanceCache
  simp only [objSetS, pure_ok, bindM_ok, hb, iteM, ofBool, truth, truthy]
  have := init_tail (objSet "options" kw sfs) gfs b chk hchk
  simp only [objSetS, pure_ok, bindM_ok] at this
  simpa [cacheObjAfter] using this

/-- **… no back-end passed in: a new `LRUCache` of the capacity `maxsize`** -/
theorem gen_allowance_init_default (sfs gfs : List (String × V)) (chk : V) (kvs : List (List Char × PyVal)) (m : PyVal)
    (hm : lookup "maxsize".toList kvs = some m) (hchk : objGet "is_allowed_check" gfs = some chk) :
    init_AllowanceCache (.obj sfs) (.obj gfs) (.py .none) (.py (.dict kvs)) =
      .ok (.seq [cacheObjAfter sfs (.py (.dict kvs)) (.seq [lruTag, .py m]), guardAfter gfs (.seq [lruTag, .py m]) chk]) := by
  unfold init_AllowanceCache
  have hs : subscriptM (.ok (V.py (.dict kvs))) (cStr "maxsize") = .ok (.py m) := by
    show (match lookup "maxsize".toList kvs with | some v => Except.ok (V.py v) | Option.none => raiseM) = _
    rw [hm]
  have hn : isNoneM (.ok (V.py PyVal.none)) = ofBool true := rfl
  have hopt : objAttrM (.ok (V.obj (objSet "options" (V.py (.dict kvs)) sfs))) "options" = .ok (V.py (.dict kvs)) := by
    simp only [objAttrM, bindM_ok, objGet_objSet_self]
  simp only [objSetS, pure_ok, bindM_ok, hn, iteM, ofBool, truth, truthy, hopt, hs, lruNewM]
  have := init_tail (objSet "options" (.py (.dict kvs)) sfs) gfs (.seq [lruTag, .py m]) chk hchk
  simp only [objSetS, pure_ok, bindM_ok] at this
  simpa [cacheObjAfter] using this

/-- every attribute of the guard other than `is_allowed_check` - `is_allowed` among them - is what it was -/
theorem guard_other_attributes_kept (gfs : List (String × V)) (b chk : V) (name : String) (hne : name ≠ "is_allowed_check") :
    (match guardAfter gfs b chk with | .obj fs => objGet name fs | _ => Option.none) = objGet name gfs := by
  simp only [guardAfter]
  exact objGet_objSet_ne "is_allowed_check" name _ (fun h => hne h.symm) gfs

theorem guard_is_allowed_kept (gfs : List (String × V)) (b chk : V) :
    (match guardAfter gfs b chk with | .obj fs => objGet "is_allowed" fs | _ => Option.none) = objGet "is_allowed" gfs :=
  guard_other_attributes_kept gfs b chk "is_allowed" (by decide)

theorem guard_check_wrapped (gfs : List (String × V)) (b chk : V) :
    (match guardAfter gfs b chk with | .obj fs => objGet "is_allowed_check" fs | _ => Option.none) = some (.seq [wrappedTag, b, chk]) := by
  simp only [guardAfter]
  exact objGet_objSet_self _ _ gfs

/-- **`AllowanceCache.update` as written in the source**: one `invalidate()` on the back-end stored by `__init__`, nothing else -/
theorem gen_allowance_update (sfs : List (String × V)) (backend : V) (calls : List V) (hc : objGet "cache" sfs = some backend) :
    update_AllowanceCache (.obj sfs) (.seq calls) =
      .ok (.seq [.py .none, .seq (calls ++ [.seq [.py (.str "invalidate".toList), backend]])]) := by
  simp only [update_AllowanceCache, callOutM, objAttrM, pure_ok, bindM_ok, hc, pairM, cNone]

/-- `__init__` followed by `update`: the back-end that is invalidated is the one `is_allowed_check` was wrapped with -/
theorem init_then_update (sfs gfs : List (String × V)) (b chk kw : V) (calls : List V)
    (hb : isNoneM (.ok b) = ofBool false) (hchk : objGet "is_allowed_check" gfs = some chk) :
    init_AllowanceCache (.obj sfs) (.obj gfs) b kw = .ok (.seq [cacheObjAfter sfs kw b, guardAfter gfs b chk]) ∧
    update_AllowanceCache (cacheObjAfter sfs kw b) (.seq calls) =
      .ok (.seq [.py .none, .seq (calls ++ [.seq [.py (.str "invalidate".toList), b]])]) :=
  ⟨gen_allowance_init_backend sfs gfs b chk kw hb hchk,
   gen_allowance_update _ b calls (objGet_objSet_self "cache" b _)⟩

theorem translatedAllowance_covers : translatedAllowance = ["AllowanceCache.__init__", "AllowanceCache.update"] := by decide

end Vakt.GenEquiv
