import Gen.Policy
import Gen.Lemmas
import Model.PolicyObj
/-!
# The translated `Policy._calculate_type` is the model's `calcType`

`Gen/Policy.lean` is produced from `/repo/vakt/policy.py` on every run.  `gen_calculate_type`: the generated definition —
the copy with the new value put into its `__dict__`, the comprehension over `_definition_fields`, the nested loops with
their three counters, the final comparisons of the counters — returns the type constant the model's `calcType` computes
from the *kinds* of the elements of the three definition fields, and raises exactly when `calcType` has no answer.
-/
namespace Vakt.GenEquiv
open Vakt PyVal Vakt.PyPrim Vakt.GenPolicy Vakt.PolicyObj

/-- the kind of an element, as `_calculate_type` sees it -/
def kindOfV : V → EKind
  | .py (.str _) => .str
  | .rule _ => .rule
  | .attrs _ => .rule
  | .py (.dict _) => .rule
  | _ => .other

def cst (a r s : Nat) : List V := [.py (.int a), .py (.int r), .py (.int s)]

/-- the body of the inner loop (one element) -/
def cntBody : V → List V → (List V → M) → (List V → M) → M := fun l2_e s2 k2 b2 =>
      (bindM (addM (pure (stGet s2 0)) (cInt (1))) fun v_all_elements =>
      (iteM (isRuleLikeM (pure l2_e))
      (bindM (addM (pure (stGet s2 1)) (cInt (1))) fun v_rule_elements =>
      (k2 [v_all_elements, v_rule_elements, (stGet s2 2)]))
      (iteM (isinstanceM (pure l2_e) "str")
      (bindM (addM (pure (stGet s2 2)) (cInt (1))) fun v_str_elements =>
      (k2 [v_all_elements, (stGet s2 1), v_str_elements]))
      (k2 [v_all_elements, (stGet s2 1), (stGet s2 2)]))))

def isK (k : EKind) (e : V) : Bool := kindOfV e == k

theorem cntBody_step (e : V) (a r s : Nat) (kc bc : List V → M) :
    cntBody e (cst a r s) kc bc =
      kc (cst (a + 1) (r + if isK .rule e then 1 else 0) (s + if isK .str e then 1 else 0)) := by
  have h1 : ∀ n : Nat, addM (.ok (V.py (.int n))) (cInt 1) = .ok (V.py (.int ((n + 1 : Nat) : Int))) := by
    intro n; simp [addM, cInt]
  simp only [cntBody, cst, stGet, List.getD_cons_zero, List.getD_cons_succ, pure_ok, h1, bindM_ok]
  cases e with
  | py v => cases v <;> simp [isRuleLikeM, isinstanceM, isStr, isK, kindOfV, h1]
  | rule x => simp [isRuleLikeM, isK, kindOfV, h1]
  | attrs x => simp [isRuleLikeM, isK, kindOfV, h1]
  | _ => simp [isRuleLikeM, isinstanceM, isK, kindOfV]      -- every other kind of object (whatever kinds are added later)

theorem cnt_loop (es : List V) :
    ∀ (a r s : Nat) (rest : List V → M),
      loopS es cntBody (cst a r s) rest =
        rest (cst (a + es.length) (r + es.countP (isK .rule)) (s + es.countP (isK .str))) := by
  induction es with
  | nil => intro a r s rest; rfl
  | cons e tail ih =>
    intro a r s rest
    simp only [loopS, cntBody_step, ih, List.length_cons, List.countP_cons]
    have e1 : a + 1 + tail.length = a + (tail.length + 1) := by omega
    have e2 : ∀ (x : Nat) (b : Bool) (c : Nat), x + (if b = true then 1 else 0) + c = x + (c + if b = true then 1 else 0) := by
      intro x b c; cases b <;> simp <;> omega
    rw [e1, e2, e2]

/-- the body of the outer loop (one definition field) -/
def fldBody : V → List V → (List V → M) → (List V → M) → M := fun l1_elements s1 k1 b1 =>
      (pyForS (pure l1_elements) cntBody
      [(stGet s1 0), (stGet s1 1), (stGet s1 2)]
      (fun r2 => (k1 [(stGet r2 0), (stGet r2 1), (stGet r2 2)])))

theorem fldBody_step (es : List V) (a r s : Nat) (kc bc : List V → M) :
    fldBody (.seq es) (cst a r s) kc bc =
      kc (cst (a + es.length) (r + es.countP (isK .rule)) (s + es.countP (isK .str))) := by
  have h0 : ([stGet (cst a r s) 0, stGet (cst a r s) 1, stGet (cst a r s) 2] : List V) = cst a r s := rfl
  simp only [fldBody, pure_ok, pyForS, bindM_ok, items, h0, cnt_loop]
  rfl

/-- the three fields one after the other -/
theorem fld_loop (ss rs as : List V) (rest : List V → M) :
    loopS [.seq ss, .seq rs, .seq as] fldBody (cst 0 0 0) rest =
      rest (cst ((ss ++ rs ++ as).length) ((ss ++ rs ++ as).countP (isK .rule)) ((ss ++ rs ++ as).countP (isK .str))) := by
  simp only [loopS, fldBody_step, List.length_append, List.countP_append, Nat.zero_add, Nat.add_assoc]

/-- the comparisons of the counters at the end -/
def finish (r1 : List V) : M :=
      (iteM (pyOr (cmpEq (pure (stGet r1 0)) (pure (stGet r1 2))) (fun _ => (cmpEq (pure (stGet r1 0)) (cInt (0)))))
      (cInt (1))
      (iteM (cmpEq (pure (stGet r1 0)) (pure (stGet r1 1)))
      (cInt (2))
      raiseM))

theorem pyEq_nat (a b : Nat) : pyEq (.int (a : Int)) (.int (b : Int)) = (a == b) := by
  simp only [pyEq, asNum, numEq, Int.pow_zero, Int.mul_one]
  by_cases h : a = b
  · subst h; simp
  · have h2 : ¬ ((a : Int) = (b : Int)) := by omega
    have e1 : ((a : Int) == (b : Int)) = false := by simpa using h2
    have e2 : (a == b) = false := by simpa using h
    rw [e1, e2]

theorem types_are : typeString = 1 ∧ typeRule = 2 := by decide

theorem countP_all (k : EKind) (es : List V) :
    (es.countP (isK k) == es.length) = (es.map kindOfV).all (· == k) := by
  induction es with
  | nil => rfl
  | cons e tail ih =>
    have hle := List.countP_le_length (p := isK k) (l := tail)
    simp only [List.countP_cons, List.length_cons, List.map_cons, List.all_cons]
    by_cases he : isK k e = true
    · have : (kindOfV e == k) = true := he
      simp only [he, ↓reduceIte, this, Bool.true_and, ← ih]
      by_cases hc : List.countP (isK k) tail = tail.length <;> simp [hc]
    · have he' : isK k e = false := by simpa using he
      have : (kindOfV e == k) = false := he'
      simp only [he', Bool.false_eq_true, ↓reduceIte, this, Bool.false_and, Nat.add_zero]
      have : ¬ (List.countP (isK k) tail = tail.length + 1) := by omega
      simp [this]

theorem finish_eq (es : List V) :
    finish (cst es.length (es.countP (isK .rule)) (es.countP (isK .str))) =
      (match calcType (es.map kindOfV) [] [] with
       | some t => .ok (.py (.int t))
       | Option.none => raiseM) := by
  have hs := countP_all .str es
  have hr := countP_all .rule es
  simp only [finish, cst, stGet, List.getD_cons_zero, List.getD_cons_succ, pure_ok, cmpEq, cmp2, cInt, bindM_ok, liftR_ok,
    pyEq_nat, pyOr, truth_bool, iteM_ok, calcType, List.append_nil, types_are.1, types_are.2]
  have hs' : (es.length == es.countP (isK .str)) = (es.map kindOfV).all (· == EKind.str) := by
    rw [← hs]; exact BEq.comm
  have hr' : (es.length == es.countP (isK .rule)) = (es.map kindOfV).all (· == EKind.rule) := by
    rw [← hr]; exact BEq.comm
  rw [hs', hr']
  have hz : ∀ n : Nat, pyEq (.int (n : Int)) (.int 0) = (n == 0) := fun n => by
    have := pyEq_nat n 0; simpa using this
  simp only [hz]
  cases h1 : (es.map kindOfV).all (· == EKind.str)
  · -- not all strings: then there is an element, so the length is not 0
    have hne : (es.length == 0) = false := by
      cases es with
      | nil => simp at h1
      | cons e t => simp
    simp only [Bool.false_eq_true, ↓reduceIte, hne]
    cases (es.map kindOfV).all (· == EKind.rule) <;> rfl
  · simp

/-- what `getattr(self_copy, f, ())` finds for a definition field: the stored sequence, or the empty tuple -/
def fieldOf (fs : List (String × V)) (name : String) : V := (objGet name fs).getD (.seq [])

theorem calcType_append (ss rs as : List EKind) : calcType ss rs as = calcType (ss ++ rs ++ as) [] [] := by
  simp [calcType]

/-- **`Policy._calculate_type` as written in the source is the model's `calcType`**: for an object whose three definition
fields (after the new value has been put into the copy) hold sequences of elements, the result is the type constant
`calcType` computes from the kinds of the elements, and `PolicyCreationError` exactly when it has no answer -/
theorem gen_calculate_type (fs : List (String × V)) (name : List Char) (value : V) (ss rs as : List V)
    (hs : fieldOf (objSet (String.ofList name) value fs) "subjects" = .seq ss)
    (hr : fieldOf (objSet (String.ofList name) value fs) "resources" = .seq rs)
    (ha : fieldOf (objSet (String.ofList name) value fs) "actions" = .seq as) :
    calculate_type_Policy (.obj fs) (.py (.str name)) value =
      (match calcType (ss.map kindOfV) (rs.map kindOfV) (as.map kindOfV) with
       | some t => .ok (.py (.int t))
       | Option.none => raiseM) := by
  have hget : ∀ n : String, getattrObjM (.ok (V.obj (objSet (String.ofList name) value fs))) (.ok (V.py (.str n.toList))) cEmptyTuple =
      .ok (fieldOf (objSet (String.ofList name) value fs) n) := by
    intro n
    simp only [getattrObjM, bindM_ok, cEmptyTuple, fieldOf, String.ofList_toList]
    cases objGet n (objSet (String.ofList name) value fs) <;> rfl
  show (bindM (cInt (0)) fun v_all_elements => (bindM (pure v_all_elements) fun v_rule_elements =>
      (bindM (pure v_all_elements) fun v_str_elements => (bindM (copyM (pure (V.obj fs))) fun v_self_copy =>
      (bindM (setDictItemM (pure v_self_copy) (pure (V.py (.str name))) (pure value)) fun v_self_copy =>
      (pyForS (listCompM (cStrList ["subjects", "resources", "actions"]) fun c3_f =>
          (getattrObjM (pure v_self_copy) (pure c3_f) cEmptyTuple)) fldBody
        [v_all_elements, v_rule_elements, v_str_elements] finish)))))) = _
  simp only [cInt, bindM_ok, pure_ok, copyM, setDictItemM, cStrList, listCompM, items, List.map_cons, List.map_nil, compM,
    hget "subjects", hget "resources", hget "actions", hs, hr, ha, Except.map, pyForS]
  have h0 : ([V.py (.int (0 : Int)), V.py (.int (0 : Int)), V.py (.int (0 : Int))] : List V) = cst 0 0 0 := rfl
  rw [h0, fld_loop, finish_eq, calcType_append (ss.map kindOfV)]
  simp only [List.map_append, List.append_nil]

/-! ### `_check_field_type` and `__setattr__` -/

def isDefName (name : List Char) : Bool := isDefField (String.ofList name)

theorem in_def_fields (name : List Char) :
    cmpIn (.ok (V.py (.str name))) (cStrList ["subjects", "resources", "actions"]) = ofBool (isDefName name) := by
  simp only [cmpIn, cStrList, bindM_ok, List.map_cons, List.map_nil, List.any_cons, List.any_nil, Bool.or_false, ofBool_eq,
    isDefName, isDefField, Generated.definitionFields]
  have h : ∀ s : String, pyEq (.str name) (.str s.toList) = (String.ofList name == s) := by
    intro s
    have h0 : pyEq (.str name) (.str s.toList) = (name == s.toList) := by simp [pyEq]
    rw [h0]
    apply Bool.eq_iff_iff.mpr
    simp only [beq_iff_eq]
    constructor
    · intro hn; rw [hn]; simp
    · intro hn; rw [← hn]; simp
  simp only [h]
  generalize String.ofList name = n
  simp only [List.contains, List.elem]
  cases (n == "subjects") <;> cases (n == "resources") <;> cases (n == "actions") <;> rfl

/-- the element test of `_check_field_type` -/
def okElem : V → M := fun c1_x => (pyOr (isinstanceM (pure c1_x) "str") (fun _ => (isRuleLikeM (pure c1_x))))

theorem okElem_eval (e : V) : okElem e = ofBool (kindOfV e != .other) := by
  cases e with
  | py v => cases v <;> simp [okElem, pyOr, isinstanceM, isRuleLikeM, isStr, kindOfV, truth, truthy]
  | rule x => simp [okElem, pyOr, isinstanceM, isRuleLikeM, kindOfV, truth, truthy]
  | attrs x => simp [okElem, pyOr, isinstanceM, isRuleLikeM, kindOfV, truth, truthy]
  | _ => simp [okElem, pyOr, isinstanceM, isRuleLikeM, kindOfV, truth, truthy]

theorem comp_okElem (xs : List V) :
    compM xs okElem = .ok (xs.map fun e => V.py (.bool (kindOfV e != .other))) := by
  induction xs with
  | nil => rfl
  | cons x rest ih => simp only [compM, okElem_eval, ofBool_eq, ih, List.map_cons]

theorem all_ok (xs : List V) :
    (xs.map fun e => V.py (.bool (kindOfV e != EKind.other))).all truth = !(xs.map kindOfV).any (· == EKind.other) := by
  induction xs with
  | nil => rfl
  | cons x rest ih =>
    simp only [List.map_cons, List.all_cons, List.any_cons, truth_bool, ih, Bool.not_or]
    cases kindOfV x <;> rfl

/-- **`Policy._check_field_type` as written in the source is the model's `checkField`** for a value that is a sequence of
elements (a definition field) or any object (every other name): it raises exactly when a definition field holds an element
that is neither a string nor a rule nor an attribute dictionary, or when the context is not a dictionary -/
theorem gen_check_field_type (self : V) (name : List Char) (xs : List V) :
    check_field_type_Policy self (.py (.str name)) (.seq xs) =
      (if isDefName name && (xs.map kindOfV).any (· == EKind.other) then raiseM
       else if name == "context".toList then raiseM else cNone) := by
  have hall : callAll (listCompM (.ok (V.seq xs)) okElem) = ofBool (!(xs.map kindOfV).any (· == EKind.other)) := by
    simp only [listCompM, bindM_ok, items, comp_okElem, Except.map, callAll, ofBool_eq, all_ok]
  have hctx : cmpEq (.ok (V.py (.str name))) (cStr "context") = ofBool (name == "context".toList) := by
    simp only [cmpEq, cmp2, bindM_ok, cStr, liftR_ok, pyEq, ofBool_eq]
  show (iteM (pyAnd (cmpIn (pure (V.py (.str name))) (cStrList ["subjects", "resources", "actions"]))
      (fun _ => (pyNot (callAll (listCompM (pure (V.seq xs)) okElem))))) raiseM
      (iteM (pyAnd (cmpEq (pure (V.py (.str name))) (cStr "context")) (fun _ => (pyNot (isinstanceM (pure (V.seq xs)) "dict"))))
      raiseM cNone)) = _
  simp only [pure_ok, in_def_fields, hall, hctx, pyAnd, ofBool_eq, bindM_ok, truth_bool, pyNot_ok, isinstanceM, iteM_ok]
  cases isDefName name <;> cases (xs.map kindOfV).any (· == EKind.other) <;> cases (name == "context".toList) <;> rfl

/-- … in the model's words: `checkField` over the kinds of the elements -/
theorem gen_check_field_type_model (self : V) (name : List Char) (xs : List V) :
    check_field_type_Policy self (.py (.str name)) (.seq xs) =
      (match checkField (String.ofList name) (.seq (xs.map kindOfV)) false with
       | some _ => raiseM
       | Option.none => cNone) := by
  rw [gen_check_field_type]
  have hc : (name == "context".toList) = (String.ofList name == "context") := by
    apply Bool.eq_iff_iff.mpr
    simp only [beq_iff_eq]
    constructor
    · intro hn; rw [hn]; rfl
    · intro hn; rw [← hn]; simp
  simp only [checkField, isDefName, hc, Bool.not_false, Bool.and_true]
  by_cases hn : String.ofList name = "context"
  · have hd : isDefField "context" = false := by decide
    simp [hn, hd]
  · have hn' : (String.ofList name == "context") = false := by simpa using hn
    simp only [hn']
    cases isDefField (String.ofList name) <;> cases (xs.map kindOfV).any (· == EKind.other) <;> rfl

/-- **`Policy.__setattr__` as written in the source**: the two checks first (`_check_field_type`, then `_calculate_type` on a copy),
and only when neither raised the two writes - the attribute, then the computed type.  A rejected assignment ends in an exception
before anything was written (the result is never the bare changed object that `objSetK` leaves behind when something raises after
a write), an accepted one leaves the object with the new value and the type `_calculate_type` returned. -/
theorem gen_setattr (fs : List (String × V)) (name : List Char) (value : V) :
    setattr_Policy (.obj fs) (.py (.str name)) value =
      (match check_field_type_Policy (.obj fs) (.py (.str name)) value with
       | .error e => .error e
       | .ok _ => match calculate_type_Policy (.obj fs) (.py (.str name)) value with
         | .error e => .error e
         | .ok t => .ok (.seq [.py .none, .obj (objSet "type" t (objSet (String.ofList name) value fs))])) := by
  simp only [setattr_Policy, pure_ok, bindM_ok]
  cases check_field_type_Policy (.obj fs) (.py (.str name)) value with
  | error e => rfl
  | ok v =>
    simp only [bindM_ok]
    cases calculate_type_Policy (.obj fs) (.py (.str name)) value with
    | error e => rfl
    | ok t => simp [objSetK, cStr, pairM, cNone]

/-! ### `Policy.__init__` -/

/-- a sequence of attribute assignments, each through the translated `__setattr__`; the first rejection ends it -/
def runAssigns : V → List (List Char × V) → M
  | o, [] => pairM cNone (pure o)
  | o, (n, v) :: rest => callProcM (setattr_Policy o (.py (.str n)) v) fun _r o' => runAssigns o' rest

/-- the context the constructor assigns: `context` if it is not `None`, else the deprecated `rules` if truthy, else `{}` -/
def ctorContext (ctx rules : V) : V :=
  match ctx with
  | .py .none => if truth rules then rules else .py (.dict [])
  | .inq Option.none => if truth rules then rules else .py (.dict [])
  | c => c

/-- **`Policy.__init__` as written in the source**: eight assignments in this order - uid, subjects, effect (a falsy one replaced by
the deny constant), resources, actions, context (see `ctorContext`), description, and `type = None` (whose value `__setattr__`
ignores) - each of them through `__setattr__`, the first rejection ending the construction.  This is the fixed sequence the model's
`construct` runs (`harness/props/c10.py` feeds it in the same order). -/
theorem gen_init (self uid subj eff res act ctx rules desc : V) :
    init_Policy self uid subj eff res act ctx rules desc =
      runAssigns self [("uid".toList, uid), ("subjects".toList, subj),
        ("effect".toList, if truth eff then eff else .py (.str Generated.denyConst)), ("resources".toList, res),
        ("actions".toList, act), ("context".toList, ctorContext ctx rules), ("description".toList, desc),
        ("type".toList, .py .none)] := by
  unfold init_Policy
  simp only [pure_ok, bindM_ok, runAssigns, pyOr, cDenyConst, cNone, isNotNoneM, isNoneM, pyNot_ok, ofBool_eq, truth_bool, iteM_ok,
    cEmptyDict]
  by_cases he : truth eff = true <;> by_cases hr : truth rules = true <;>
    cases ctx with
    | py cv => cases cv <;>
        simp only [he, hr, ctorContext, bindM_ok, Bool.not_true, Bool.not_false, Bool.false_eq_true, if_false, if_true]
    | inq q => cases q <;>
        simp only [he, hr, ctorContext, bindM_ok, Bool.not_true, Bool.not_false, Bool.false_eq_true, if_false, if_true]
    | _ => simp only [he, hr, ctorContext, bindM_ok, Bool.not_false, Bool.false_eq_true, if_false, if_true]

theorem translatedPolicy_covers :
    translatedPolicy = ["_calculate_type", "_check_field_type", "__setattr__", "__init__"] := by decide

end Vakt.GenEquiv
