import Gen.Memory
import Gen.Lemmas
import Model.Backends
/-!
# The translated methods of `MemoryStorage` are the concrete model `memStep`

`Gen/Memory.lean` is produced from `/repo/vakt/storage/memory.py` (and `Storage._check_limit_and_offset` from `vakt/storage/abc.py`)
on every run, the dictionary `self.policies` being the world the methods act on (`with self.lock:` runs its body).  Each translated
method leaves exactly the dictionary `Backends.memStep` computes and returns / raises what it says; `memStep` in turn refines the
abstract store (`Props/C08Backends.lean`, `memory_refines`).
-/
namespace Vakt.GenEquiv
open Vakt PyVal Vakt.PyPrim Vakt.GenMemory Vakt.Store Vakt.Backends

def MW (cfg : Cfg) (d : St) : V := .eworld cfg ⟨[], d⟩ false 0 Option.none

def polsV' (l : St) : List V := l.map fun (x : Uid × Pol) => V.polv x.1 x.2 true

/-- how a method ends, against `memStep` (its recorded client calls aside) -/
def MOutcome (m : M) (cfg : Cfg) (r : St × Out × List Call) : Prop :=
  match r.2.1 with
  | .done => m = .ok (.seq [.py .none, MW cfg r.1])
  | .pol Option.none => m = .ok (.seq [.py .none, MW cfg r.1])
  | .pol (some p) => ∃ u, m = .ok (.seq [.polv u p true, MW cfg r.1])
  | .pols l => m = .ok (.seq [.seq (polsV' l), MW cfg r.1])
  | e => m = .ok (.eworld cfg ⟨[], r.1⟩ false 0 (some e))

theorem lt_int (a b : Int) : cmpLt (.ok (.py (.int a))) (cInt b) = ofBool (Decidable.decide (a < b)) := by
  simp only [cmpLt, cmp2, bindM, cInt, pyLt, pyCmp, asNum, numEq, numLt, liftR, Except.map, ofBool]
  by_cases h1 : a = b
  · subst h1; simp
  · by_cases h2 : a < b
    · simp [h1, h2]
    · simp [h1, h2]

theorem gt_int (a b : Int) : cmpGt (.ok (.py (.int a))) (cInt b) = ofBool (Decidable.decide (b < a)) := by
  simp only [cmpGt, cmp2, bindM, cInt, pyGt, pyCmp, asNum, numEq, numLt, liftR, Except.map, ofBool]
  by_cases h1 : a = b
  · subst h1; simp
  · by_cases h2 : a < b
    · have : ¬ b < a := by omega
      simp [h1, h2, this]
    · have : b < a := by omega
      simp [h1, h2, this]

theorem eq_int (a b : Int) : cmpEq (.ok (.py (.int a))) (cInt b) = ofBool (a == b) := by
  simp only [cmpEq, cmp2, bindM, cInt, liftR, ofBool, pyEq, numEq, asNum]
  simp [Except.map]

theorem gen_check_limit (cfg : Cfg) (d : St) (l o : Int) :
    check_limit_and_offset_Storage (.py (.int l)) (.py (.int o)) (MW cfg d) =
      if checkLimitOffset l o then .ok (.eworld cfg ⟨[], d⟩ false 0 (some .valueError)) else .ok (.seq [.py .none, MW cfg d]) := by
  unfold check_limit_and_offset_Storage MW checkLimitOffset
  simp only [pure_ok, lt_int, ofBool_eq, iteM_ok, truth_bool, raiseWorldM, bindM_ok, pairM, cNone]
  by_cases h1 : l < 0 <;> by_cases h2 : o < 0 <;> simp [h1, h2]

theorem gen_memory_add (cfg : Cfg) (d : St) (self : V) (u : Uid) (p : Pol) (ok : Bool) :
    MOutcome (add_MemoryStorage self (.polv u p ok) (MW cfg d)) cfg (memStep d (.add u p ok)) := by
  unfold add_MemoryStorage MW MOutcome memStep
  simp only [pure_ok, attrM, bindM_ok, dictInM, dictSetM, raiseWorldM, pairM, cNone, ofBool_eq, iteM_ok, truth_bool]
  cases h : dictGet u d <;> simp [h, MW]

theorem gen_memory_update (cfg : Cfg) (d : St) (self : V) (u : Uid) (p : Pol) (ok : Bool) :
    MOutcome (update_MemoryStorage self (.polv u p ok) (MW cfg d)) cfg (memStep d (.update u p ok)) := by
  unfold update_MemoryStorage MW MOutcome memStep
  simp only [pure_ok, attrM, bindM_ok, dictInM, dictSetM, pairM, cNone, ofBool_eq, pyNot_ok, iteM_ok, truth_bool]
  cases h : dictGet u d <;> simp [h, MW]

theorem gen_memory_delete (cfg : Cfg) (d : St) (self : V) (u : Uid) :
    MOutcome (delete_MemoryStorage self (.py (.str u)) (MW cfg d)) cfg (memStep d (.delete u)) := by
  unfold delete_MemoryStorage MW MOutcome memStep
  simp only [pure_ok, bindM_ok, dictInM, dictDelM, pairM, cNone, ofBool_eq, iteM_ok, truth_bool]
  cases h : dictGet u d <;> simp [h, MW]

theorem gen_memory_get (cfg : Cfg) (d : St) (self : V) (u : Uid) :
    MOutcome (get_MemoryStorage self (.py (.str u)) (MW cfg d)) cfg (memStep d (.get u)) := by
  unfold get_MemoryStorage MW MOutcome memStep
  simp only [pure_ok, bindM_ok, dictGetM, pairM, cNone]
  cases h : dictGet u d <;> simp [h, MW, bindM]

theorem gen_memory_find (cfg : Cfg) (d : St) (self q k : V) :
    find_for_inquiry_MemoryStorage self q k (MW cfg d) = .ok (.seq [.pols d, MW cfg d]) := by
  simp [find_for_inquiry_MemoryStorage, MW, dictValuesM, callList, pairM]

theorem comp_id (xs : List V) : compM xs (fun c2_v => (Except.ok c2_v : M)) = .ok xs := by
  induction xs with
  | nil => rfl
  | cons x rest ih => simp only [compM, ih]

theorem gen_memory_get_all (cfg : Cfg) (d : St) (self : V) (l o : Int) :
    MOutcome (get_all_MemoryStorage self (.py (.int l)) (.py (.int o)) (MW cfg d)) cfg (memStep d (.getAll l o)) := by
  unfold get_all_MemoryStorage MOutcome memStep memGetAll
  simp only [pure_ok, bindM_ok, gen_check_limit]
  by_cases hc : checkLimitOffset l o = true
  · simp [hc, callProcM]
  · have hc' : checkLimitOffset l o = false := by simpa using hc
    have hl : 0 ≤ l := by simp [checkLimitOffset] at hc'; omega
    have ho : 0 ≤ o := by simp [checkLimitOffset] at hc'; omega
    simp only [hc', Bool.false_eq_true, if_false, callProcM, MW, dictValuesM, bindM_ok, listCompM, items, comp_id, Except.map,
      callLen, pyOr]
    have hgt := gt_int o (d.length : Int)
    simp only [cInt] at hgt
    have hlen : (List.map (fun (x : Uid × Pol) => V.polv x.1 x.2 true) d).length = d.length := by simp
    simp only [hlen, cInt, hgt, ofBool_eq, bindM_ok, truth_bool]
    have hnat : (Decidable.decide ((d.length : Int) < o)) = (Decidable.decide (o.toNat > d.length)) := by
      by_cases h : (d.length : Int) < o
      · have : o.toNat > d.length := by omega
        simp [h, this]
      · have : ¬ o.toNat > d.length := by omega
        simp [h, this]
    by_cases hbig : o.toNat > d.length
    · simp [hnat, hbig, pairM, cEmptyList, polsV']
    · have heq := eq_int l 0
      simp only [cInt] at heq
      simp only [hnat, hbig, decide_false, Bool.false_eq_true, if_false, heq, ofBool_eq, Bool.false_or]
      by_cases hz : l = 0
      · subst hz; simp [pairM, cEmptyList, polsV']
      · have hz' : (l == 0) = false := by simpa using hz
        have hsum : 0 ≤ l + o := by omega
        simp [hz', addM, sliceM, pairM, ho, hsum, polsV', pySlice, List.map_drop, List.map_take]

/-! ### `Storage.retrieve_all` (the generator every storage inherits) -/

/-- the body of the inner loop: `yield policy` -/
def yieldBody : V → List V → (List V → M) → (List V → M) → M := fun l2_policy s2 k2 b2 =>
      (bindM (appendM (pure (stGet s2 0)) (pure l2_policy)) fun v___y =>
      (k2 [v___y]))

theorem yield_loop (xs : List V) : ∀ (acc : List V) (rest : List V → M),
    loopS xs yieldBody [.seq acc] rest = rest [.seq (acc ++ xs)] := by
  induction xs with
  | nil => intro acc rest; simp [loopS]
  | cons x tail ih =>
    intro acc rest
    simp only [loopS, yieldBody, stGet, List.getD_cons_zero, pure_ok, appendM, bindM_ok, ih, List.append_assoc,
      List.singleton_append]

/-- one round of `while True` -/
def retrBody (self : V) (v_limit : V) : List V → (List V → M) → (List V → M) → M := fun s1 k1 b1 =>
      (bindM (callList (pagerGetAllM (pure self) (pure v_limit) (pure (stGet s1 1)))) fun v_policies =>
      (iteM (cmpEq (callLen (pure v_policies)) (cInt (0)))
      (pure (stGet s1 0))
      (pyForS (pure v_policies) yieldBody
      [(stGet s1 0)]
      (fun r2 => (bindM (addM (pure (stGet s1 1)) (pure v_limit)) fun v_offset =>
      (k1 [(stGet r2 0), v_offset]))))))

theorem len_eq_zero (n : Nat) : cmpEq (cInt (n : Int)) (cInt 0) = ofBool (n == 0) := by
  have := eq_int (n : Int) 0
  simp only [cInt] at this ⊢
  rw [this]
  cases n with
  | zero => simp
  | succ k =>
    have : ¬ ((k : Int) + 1 = 0) := by omega
    simp [this]

theorem retrBody_step (ga : Int → Int → Option St) (batch off : Int) (acc : List V) (k b : List V → M) :
    retrBody (.pager ga) (.py (.int batch)) [.seq acc, .py (.int off)] k b =
      (match ga batch off with
       | Option.none => raiseM
       | some pg => if pg.isEmpty then .ok (.seq acc) else k [.seq (acc ++ polsV' pg), .py (.int (off + batch))]) := by
  simp only [retrBody, stGet, List.getD_cons_zero, List.getD_cons_succ, pure_ok, pagerGetAllM, bindM_ok]
  cases hga : ga batch off with
  | none => simp [callList, raiseM, bindM]
  | some pg =>
    simp only [callList, bindM_ok, callLen, len_eq_zero, ofBool_eq, iteM_ok, truth_bool]
    cases pg with
    | nil => simp
    | cons x rest =>
      simp only [List.length_cons, Nat.add_one_ne_zero, beq_iff_eq, Bool.false_eq_true, if_false,
        List.isEmpty_cons, pyForS, bindM_ok, items, yield_loop, List.getD_cons_zero, addM, stGet, polsV']

theorem retr_loop (ga : Int → Int → Option St) (batch : Int) : ∀ (fuel : Nat) (off : Int) (acc : List V),
    whileS fuel (retrBody (.pager ga) (.py (.int batch))) [.seq acc, .py (.int off)] (fun r1 => pure (stGet r1 0)) =
      (match retrLoop ga batch fuel off with
       | Option.none => raiseM
       | some l => .ok (.seq (acc ++ polsV' l))) := by
  intro fuel
  induction fuel with
  | zero => intro off acc; simp [whileS, retrLoop, stGet, polsV']
  | succ f ih =>
    intro off acc
    simp only [whileS, retrLoop, retrBody_step]
    cases hga : ga batch off with
    | none => rfl
    | some pg =>
      cases pg with
      | nil => simp [polsV']
      | cons x rest =>
        simp only [List.isEmpty_cons, Bool.false_eq_true, if_false, ih]
        cases retrLoop ga batch f (off + batch) with
        | none => rfl
        | some l => simp [polsV', List.append_assoc]

/-- **`Storage.retrieve_all` as written in the source is the model's `retrLoop`** over whatever `get_all` the storage has: what the
generator yields, in order, is the concatenation of the pages of size `batch` from offset 0 up to the first empty page; it raises
exactly when a `get_all` call does.  (`retrieveAll_fuel_enough` in `Proofs/Backends.lean`: for a positive batch the bound on the rounds
is never reached, and the result is every stored policy exactly once.) -/
theorem gen_retrieve_all (ga : Int → Int → Option St) (batch : Int) (fuel : Nat) :
    retrieve_all_Storage fuel (.pager ga) (.py (.int batch)) =
      (match retrLoop ga batch fuel 0 with
       | Option.none => raiseM
       | some l => .ok (.seq (polsV' l))) := by
  have h := retr_loop ga batch fuel 0 []
  simp only [List.nil_append] at h
  simp only [retrieve_all_Storage, cEmptyList, bindM_ok, pure_ok, cInt]
  exact h

end Vakt.GenEquiv
