import Gen.Parser
import Gen.Lemmas
import Model.TagParser
/-!
# The translated `get_tag_indices` is the model's `tagIndices`

`Gen/Parser.lean` is produced from `/repo/vakt/parser.py` on every run.  `gen_get_tag_indices`: the generated definition —
the loop over `enumerate(string)` carrying `idx`, `level` and the list `indices`, the two `append`s, the two `raise`s —
returns the flat list of the model's `tagIndices` (start index, end index + 1 of every top-level tagged segment), and
raises exactly when the model says the delimiters are unbalanced.  With `index_form_eq_scanner` (C03) the theorems about
the scanner are theorems about this function as it is written today.
-/
namespace Vakt.GenEquiv
open Vakt PyVal Vakt.PyPrim Vakt.GenParser Vakt.TagParser

def flat (acc : List (Nat × Nat)) : List PyVal := acc.flatMap (fun ab => [PyVal.int ab.1, PyVal.int ab.2])

theorem flat_append (acc : List (Nat × Nat)) (a b : Nat) : flat (acc ++ [(a, b)]) = flat acc ++ [.int a, .int b] := by
  simp [flat]

/-- the state the loop carries: `[idx, indices, level]` -/
def tst (idx level : Nat) (acc : List (Nat × Nat)) : List V :=
  [.py (.int idx), .py (.list (flat acc)), .py (.int level)]

/-- the scan without the final balance test: the state after the last character, or `none` when a closing delimiter
has nothing to close -/
def tagRun (s t : Char) : List Char → Nat → Nat → Nat → List (Nat × Nat) → Option (Nat × Nat × List (Nat × Nat))
  | [], _, idx, level, acc => some (idx, level, acc)
  | c :: cs, i, idx, level, acc =>
    if c = s then tagRun s t cs (i + 1) (if level = 0 then i else idx) (level + 1) acc
    else if c = t then
      match level with
      | 0 => none
      | 1 => tagRun s t cs (i + 1) idx 0 (acc ++ [(idx, i + 1)])
      | n + 2 => tagRun s t cs (i + 1) idx (n + 1) acc
    else tagRun s t cs (i + 1) idx level acc

theorem tagIdxAux_run (s t : Char) (cs : List Char) :
    ∀ (i idx level : Nat) (acc : List (Nat × Nat)),
      tagIdxAux s t cs i idx level acc =
        (match tagRun s t cs i idx level acc with
         | some (_, 0, acc') => some acc'
         | _ => none) := by
  induction cs with
  | nil => intro i idx level acc; cases level <;> rfl
  | cons c rest ih =>
    intro i idx level acc
    simp only [tagIdxAux, tagRun]
    split
    · exact ih _ _ _ _
    · split
      · cases level with
        | zero => rfl
        | succ n => cases n with
          | zero => exact ih _ _ _ _
          | succ m => exact ih _ _ _ _
      · exact ih _ _ _ _

/-- the body of the loop -/
def tagBody (s t : Char) : V → List V → (List V → M) → (List V → M) → M := fun l1_pair s1 k1 b1 =>
      (bindM (seqItemM (pure l1_pair) 0) fun l1_i =>
      (bindM (seqItemM (pure l1_pair) 1) fun l1_v =>
      (iteM (cmpEq (pure l1_v) (pure (V.py (.str [s]))))
      (bindM (addM (pure (stGet s1 2)) (cInt (1))) fun v_level =>
      (iteM (cmpEq (pure v_level) (cInt (1)))
      (bindM (pure l1_i) fun v_idx =>
      (k1 [v_idx, (stGet s1 1), v_level]))
      (k1 [(stGet s1 0), (stGet s1 1), v_level])))
      (iteM (cmpEq (pure l1_v) (pure (V.py (.str [t]))))
      (bindM (subM (pure (stGet s1 2)) (cInt (1))) fun v_level =>
      (iteM (cmpEq (pure v_level) (cInt (0)))
      (bindM (appendM (pure (stGet s1 1)) (pure (stGet s1 0))) fun v_indices =>
      (bindM (appendM (pure v_indices) (addM (pure l1_i) (cInt (1)))) fun v_indices =>
      (k1 [(stGet s1 0), v_indices, v_level])))
      (iteM (cmpLt (pure v_level) (cInt (0)))
      raiseM
      (k1 [(stGet s1 0), (stGet s1 1), v_level]))))
      (k1 [(stGet s1 0), (stGet s1 1), (stGet s1 2)])))))

theorem pyEq_int' (a b : Int) : pyEq (.int a) (.int b) = (a == b) := by
  simp [pyEq, asNum, numEq]

theorem addM_int (a b : Int) : addM (.ok (V.py (.int a))) (cInt b) = .ok (V.py (.int (a + b))) := rfl
theorem subM_int (a b : Int) : subM (.ok (V.py (.int a))) (cInt b) = .ok (V.py (.int (a - b))) := rfl
theorem cmpEq_int (a b : Int) : cmpEq (.ok (V.py (.int a))) (cInt b) = .ok (V.py (.bool (a == b))) := by
  simp only [cmpEq, cmp2, cInt, bindM_ok, liftR_ok, pyEq_int']
theorem cmpNe_int (a b : Int) : cmpNe (.ok (V.py (.int a))) (cInt b) = .ok (V.py (.bool (!(a == b)))) := by
  simp only [cmpNe, cmp2, cInt, bindM_ok, liftR_ok, pyEq_int']
theorem cmpLt_int (a b : Int) : cmpLt (.ok (V.py (.int a))) (cInt b) = .ok (V.py (.bool (Decidable.decide (a < b)))) := by
  simp only [cmpLt, cmp2, cInt, bindM_ok, pyLt, pyCmp, asNum, numEq, numLt, Except.map, Int.pow_zero, Int.mul_one]
  by_cases h1 : a = b
  · subst h1; simp
  · by_cases h2 : a < b
    · have : (a == b) = false := by simpa using h1
      simp [this, h2]
    · have : (a == b) = false := by simpa using h1
      simp [this, h2]
theorem cmpEq_char (c s : Char) :
    cmpEq (.ok (V.py (.str [c]))) (.ok (V.py (.str [s]))) = .ok (V.py (.bool (c == s))) := by
  simp only [cmpEq, cmp2, bindM_ok, liftR_ok, pyEq]
  congr 3
  by_cases h : c = s <;> simp [h]
theorem appendM_list (xs : List PyVal) (v : PyVal) :
    appendM (.ok (V.py (.list xs))) (.ok (V.py v)) = .ok (V.py (.list (xs ++ [v]))) := rfl

/-- one character -/
theorem tagBody_step (s t c : Char) (i idx level : Nat) (acc : List (Nat × Nat)) (kc bc : List V → M) :
    tagBody s t (V.seq [.py (.int i), .py (.str [c])]) (tst idx level acc) kc bc =
      if c = s then kc (tst (if level = 0 then i else idx) (level + 1) acc)
      else if c = t then
        (match level with
         | 0 => raiseM
         | 1 => kc (tst idx 0 (acc ++ [(idx, i + 1)]))
         | n + 2 => kc (tst idx (n + 1) acc))
      else kc (tst idx level acc) := by
  simp only [tagBody, tst, seqItemM, pure_ok, bindM_ok, List.getElem?_cons_zero, List.getElem?_cons_succ, cmpEq_char,
    iteM_ok, truth_bool, stGet, List.getD_cons_zero, List.getD_cons_succ, addM_int, subM_int, cmpEq_int, cmpLt_int,
    appendM_list, flat_append]
  by_cases h1 : c = s
  · subst h1
    simp only [beq_self_eq_true, ↓reduceIte]
    by_cases hl : level = 0
    · subst hl; simp
    · have hne : ((level : Int) + 1 == 1) = false := by
        have : ¬ ((level : Int) + 1 = 1) := by omega
        simpa using this
      simp only [hne, Bool.false_eq_true, ↓reduceIte, hl]
      rfl
  · have hcs : (c == s) = false := by simpa using h1
    simp only [hcs, Bool.false_eq_true, ↓reduceIte, h1]
    by_cases h2 : c = t
    · subst h2
      simp only [beq_self_eq_true, ↓reduceIte]
      cases level with
      | zero => simp [raiseM]
      | succ n =>
        cases n with
        | zero => simp
        | succ m =>
          have e3 : (((m + 1 + 1 : Nat) : Int) - 1) = ((m + 1 : Nat) : Int) := by omega
          have e1 : ((((m + 1 : Nat) : Int)) == 0) = false := by
            have : ¬ (((m + 1 : Nat) : Int) = 0) := by omega
            simpa using this
          have e2 : Decidable.decide ((((m + 1 : Nat) : Int)) < 0) = false := by
            have : ¬ (((m + 1 : Nat) : Int) < 0) := by omega
            simpa using this
          rw [e3]
          simp only [e1, e2, Bool.false_eq_true, ↓reduceIte]
    · have hct : (c == t) = false := by simpa using h2
      simp only [hct, Bool.false_eq_true, ↓reduceIte, h2]

def charV (c : Char) : V := V.py (.str [c])

theorem enumV_chars (i : Nat) (c : Char) (cs : List Char) :
    enumV i ((c :: cs).map charV) = V.seq [.py (.int i), .py (.str [c])] :: enumV (i + 1) (cs.map charV) := rfl

/-- the whole loop: the state after the last character goes to the code after the loop, a closing delimiter with nothing
to close raises -/
theorem tag_loop (s t : Char) (cs : List Char) :
    ∀ (i idx level : Nat) (acc : List (Nat × Nat)) (rest : List V → M),
      loopS (enumV i (cs.map charV)) (tagBody s t) (tst idx level acc) rest =
        (match tagRun s t cs i idx level acc with
         | some (idx', level', acc') => rest (tst idx' level' acc')
         | Option.none => raiseM) := by
  induction cs with
  | nil => intro i idx level acc rest; rfl
  | cons c tail ih =>
    intro i idx level acc rest
    rw [enumV_chars]
    simp only [loopS, tagBody_step, tagRun]
    split
    · exact ih _ _ _ _ _
    · split
      · cases level with
        | zero => rfl
        | succ n => cases n with
          | zero => exact ih _ _ _ _ _
          | succ m => exact ih _ _ _ _ _
      · exact ih _ _ _ _ _

/-- **`get_tag_indices` as written in the source is the model's `tagIndices`** (flat: start, end + 1 of every
top-level tagged segment; `InvalidPatternError` exactly when the model finds the delimiters unbalanced) -/
theorem gen_get_tag_indices (s t : Char) (e : List Char) :
    get_tag_indices (.py (.str e)) (.py (.str [s])) (.py (.str [t])) =
      (match tagIndices s t e with
       | some ix => .ok (.py (.list (flat ix)))
       | Option.none => raiseM) := by
  have hloop := tag_loop s t e 0 0 0 []
    (fun r1 => (iteM (cmpNe (.ok (stGet r1 2)) (.ok (V.py (.int 0)))) raiseM (.ok (stGet r1 1))))
  have hitems : enumerateM (.ok (V.py (.str e))) = .ok (.seq (enumV 0 (e.map charV))) := rfl
  show (bindM (cStr "Pattern %s has unbalanced braces") fun v_error_msg =>
      (bindM (cInt (0)) fun v_idx => (bindM (cInt (0)) fun v_level => (bindM cEmptyPyList fun v_indices =>
      (pyForS (enumerateM (pure (V.py (.str e)))) (tagBody s t) [v_idx, v_indices, v_level] _))))) = _
  simp only [cStr, cInt, cEmptyPyList, bindM_ok, pure_ok, hitems, pyForS, items]
  have h0 : ([V.py (.int (0 : Int)), V.py (.list []), V.py (.int (0 : Int))] : List V) = tst 0 0 [] := rfl
  rw [h0, hloop, tagIndices, tagIdxAux_run]
  cases tagRun s t e 0 0 0 [] with
  | none => rfl
  | some r =>
    obtain ⟨idx', level', acc'⟩ := r
    have hne : ∀ a : Int, cmpNe (.ok (V.py (.int a))) (.ok (V.py (.int 0))) = .ok (V.py (.bool (!(a == 0)))) :=
      fun a => cmpNe_int a 0
    simp only [tst, stGet, List.getD_cons_zero, List.getD_cons_succ, hne, iteM_ok, truth_bool]
    cases level' with
    | zero => rfl
    | succ n =>
      simp
      intro h
      omega

theorem translatedParser_covers : translatedParser = ["get_tag_indices", "compile_regex"] := by decide

end Vakt.GenEquiv
