import Gen.PolicyJson
import Gen.Lemmas
import Model.Serialize
/-!
# The translated `Policy.from_json` is the model's `fromDoc`

`Gen/PolicyJson.lean` is produced from `/repo/vakt/policy.py` on every run (the decoded properties are a local dictionary that the
method tests, reads, deletes from and writes to; `cls(**props)` is the constructor as far as decoding is concerned).
-/
namespace Vakt.GenEquiv
open Vakt PyVal Vakt.PyPrim Vakt.GenPolicyJson

/-! ### `Policy.from_json` -/

open Vakt.Serialize in
/-- `Serialize.fromDoc` with the empty context written as the code writes it (`{}`); the model abstracts an empty context
dictionary to the empty key list (`fromDocD_eq`) -/
def fromDocD (d : Serialize.Doc) : Except Serialize.DocErr Serialize.Decoded :=
  if !has "uid" d then .error .creation
  else
    let (ctxRules, d1) :=
      if has "context" d then (get "context" d, d)
      else if has "rules" d then (get "rules" d, erase "rules" d)
      else (.dict [], d)
    let d2 := put "context" ctxRules d1
    let d3 := erase "type" d2
    construct d3

section
open Vakt.Serialize

theorem in_dict (k : String) (d : Doc) : cmpIn (cStr k) (.ok (V.py (.dict d))) = ofBool (has k d) := by
  simp [cmpIn, cStr, dictHas, hashable, has]

theorem sub_dict (k : String) (d : Doc) (h : has k d = true) :
    subscriptM (.ok (V.py (.dict d))) (cStr k) = .ok (.py (get k d)) := by
  simp only [subscriptM, cStr, bindM_ok, Serialize.get]
  simp only [has] at h
  cases hl : lookup k.toList d with
  | none => rw [hl] at h; cases h
  | some v => simp

theorem set_dict (k : String) (d : Doc) (v : PyVal) :
    setItemM (.ok (V.py (.dict d))) (cStr k) (.ok (V.py v)) = .ok (.py (.dict (put k v d))) := rfl

theorem del_dict (k : String) (d : Doc) (h : has k d = true) :
    delItemM (.ok (V.py (.dict d))) (cStr k) = .ok (.py (.dict (erase k d))) := by
  simp only [delItemM, cStr, bindM_ok]
  simp only [has] at h
  simp [h, erase]

theorem erase_absent (k : String) (d : Doc) (h : has k d = false) : erase k d = d := by
  simp only [has] at h
  simp only [erase]
  induction d with
  | nil => rfl
  | cons kv rest ih =>
    obtain ⟨k', v⟩ := kv
    simp only [lookup] at h
    by_cases hk : k.toList = k'
    · simp [hk] at h
    · simp only [hk, if_false] at h
      have hne : (k' != k.toList) = true := by
        simp only [bne_iff_ne, ne_eq]; intro e; exact hk e.symm
      simp only [List.filter_cons, hne, if_true, ih h]

/-- the tail every branch of `from_json` ends in: drop `type` if present, call the constructor -/
theorem tail_eq (d : Doc) :
    (iteM (cmpIn (cStr "type") (.ok (V.py (.dict d))))
      (bindM (delItemM (.ok (V.py (.dict d))) (cStr "type")) fun v_props => ctorKwM (.ok v_props))
      (ctorKwM (.ok (V.py (.dict d))))) =
      (match construct (erase "type" d) with | .ok dec => .ok (.decoded dec) | .error _ => raiseM) := by
  simp only [in_dict, ofBool_eq, iteM_ok, truth_bool]
  cases ht : has "type" d with
  | true =>
    simp only [if_true, del_dict "type" d ht, bindM_ok, ctorKwM]
    rfl
  | false =>
    simp only [Bool.false_eq_true, if_false, erase_absent "type" d ht, ctorKwM, bindM_ok]
    rfl

/-- **`Policy.from_json` as written in the source is the model's `fromDoc`**: a document without `uid` is refused, `context`
wins over the deprecated `rules` (which is removed), a stored `type` is dropped before the constructor sees it -/
theorem gen_from_json (cls : V) (d : Doc) :
    from_json_Policy cls (.py (.dict d)) =
      (match fromDocD d with | .ok dec => .ok (.decoded dec) | .error _ => raiseM) := by
  unfold from_json_Policy fromDocD
  simp only [pure_ok, parseM, bindM_ok, cmpNotIn, in_dict, ofBool_eq, pyNot_ok, truth_bool, iteM_ok, cEmptyDict]
  cases hu : has "uid" d with
  | false => simp
  | true =>
    simp only [Bool.not_true, Bool.false_eq_true, if_false]
    cases hc : has "context" d with
    | true => simp only [if_true, sub_dict "context" d hc, bindM_ok, pure_ok, set_dict, tail_eq]
    | false =>
      simp only [Bool.false_eq_true, if_false]
      cases hr : has "rules" d with
      | true => simp only [if_true, sub_dict "rules" d hr, bindM_ok, pure_ok, del_dict "rules" d hr, set_dict, tail_eq]
      | false => simp only [Bool.false_eq_true, if_false, set_dict, bindM_ok, tail_eq]

/-- where the document carries a context (or the deprecated `rules`), `fromDocD` is literally the model's `fromDoc`; otherwise the two
differ only in how the empty context is written (`{}` here, the empty key list in the model, both accepted by `isDictLike`) -/
theorem fromDocD_eq (d : Doc) (h : has "context" d = true ∨ has "rules" d = true) : fromDocD d = fromDoc d := by
  unfold fromDocD fromDoc
  cases hu : has "uid" d with
  | false => rfl
  | true =>
    cases hc : has "context" d with
    | true => simp [hc]
    | false =>
      cases hr : has "rules" d with
      | true => simp [hc, hr]
      | false => rw [hc, hr] at h; cases h with | inl h => cases h | inr h => cases h

end

theorem translatedPolicyJson_covers : translatedPolicyJson = ["from_json"] := by decide

end Vakt.GenEquiv
