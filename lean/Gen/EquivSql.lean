import Gen.Sql
import Gen.Lemmas
import Model.SqlSession
/-!
# The translated `add` / `update` / `delete` / `get` of `SQLStorage` are the session model `SqlSession.step`

`Gen/Sql.lean` is produced from `/repo/vakt/storage/sql/__init__.py` on every run, the session calls (`add`, `commit`, `rollback`,
`get`, the bulk `query(...).filter(...).delete()`, the row object's `update`) being effects on the session: its committed state, its
view, whether something is pending.  `gen_sql_add / update / delete`: the translated method leaves exactly the session
`SqlSession.step` computes and returns / raises what it says - in particular *which failures are followed by a rollback* (a key
that is taken; any exception in `update`) and that a mutation that returns has committed.  C15's theorems (`op_committed_and_clean`,
`crash_anywhere`, …) are statements about `step`, hence about these three bodies as they stand.
-/
namespace Vakt.GenEquiv
open Vakt PyVal Vakt.PyPrim Vakt.GenSql Vakt.Store Vakt.SqlSession

def SW (s : Sess) : V := .sworld s false Option.none

/-- how a mutation ends, against `SqlSession.step` -/
def SOutcome (m : M) (r : Sess × Out) : Prop :=
  match r.2 with
  | .done => m = .ok (.seq [.py .none, SW r.1])
  | .rejected => m = .error .raised ∨ m = .ok (.sworld r.1 false (some .rejected))
  | .existsErr => m = .ok (.sworld r.1 false (some .existsErr))
  | _ => False

theorem gen_sql_add (s : Sess) (self : V) (u : Uid) (p : Pol) (ok : Bool) :
    SOutcome (add_SQLStorage self (.polv u p ok) (SW s)) (SqlSession.step s (.add u p ok)) := by
  unfold add_SQLStorage SW SOutcome SqlSession.step
  cases ok
  · simp [fromPolicyM, raiseM, bindM]
  · cases hl : lookup u s.view <;>
      simp [fromPolicyM, sessAddM, sessCommitTryM, sessRollbackM, raiseSqlM, pairM, cNone, hl, SW]

theorem rollback_stage (f : St → St) (s : Sess) : rollback (stage f s) = rollback s := rfl

theorem gen_sql_update (s : Sess) (self : V) (u : Uid) (p : Pol) (ok : Bool) :
    SOutcome (update_SQLStorage self (.polv u p ok) (SW s)) (SqlSession.step s (.update u p ok)) := by
  unfold update_SQLStorage SW SOutcome SqlSession.step
  simp only [pure_ok, attrM, bindM_ok, sessGetM]
  cases hl : lookup u s.view with
  | none => simp [hl, tryElseM, pairM, cNone, SW, truth, truthy]
  | some q =>
    cases ok
    · simp [hl, tryElseM, modelUpdateM, raiseM, sessRollbackM, raiseSqlM, rollback_stage, truth]
    · simp [hl, tryElseM, modelUpdateM, sessCommitM, pairM, cNone, SW, truth]

theorem gen_sql_delete (s : Sess) (self : V) (u : Uid) :
    SOutcome (delete_SQLStorage self (.py (.str u)) (SW s)) (SqlSession.step s (.delete u)) := by
  unfold delete_SQLStorage SW SOutcome SqlSession.step
  simp [sessBulkDeleteM, sessCommitM, pairM, cNone, SW]

/-- `get` reads the session's view and leaves the session alone -/
theorem gen_sql_get (s : Sess) (self : V) (u : Uid) :
    get_SQLStorage self (.py (.str u)) (SW s) =
      (match lookup u s.view with
       | some p => .ok (.seq [.polv u p true, SW s])
       | Option.none => .ok (.seq [.py .none, SW s])) := by
  unfold get_SQLStorage SW
  cases hl : lookup u s.view <;> simp [sessGetM, hl, pairM, cNone, toPolicyM, truth, truthy, bindM]

theorem translatedSql_covers : translatedSql = ["add", "get", "update", "delete"] := by decide

end Vakt.GenEquiv
