import Gen.Sql
import Gen.Lemmas
import Model.SqlSession
import Model.Backends
/-!
# The translated `add` / `update` / `delete` / `get` of `SQLStorage` are the session model `SqlSession.step`

`Gen/Sql.lean` is produced from `/repo/vakt/storage/sql/__init__.py` on every run, the session calls (`add`, `commit`, `rollback`,
`get`, the bulk `query(...).filter(...).delete()`, the row object's `update`) being effects on the session: its committed state, its
view, whether something is pending.  `gen_sql_add / update / delete`: the translated method leaves exactly the session
`SqlSession.step` computes and returns / raises what it says - in particular *which failures are followed by a rollback* (a key
that is taken; any exception in `update`) and that a mutation that returns has committed.  C15's theorems (`op_committed_and_clean`,
`crash_anywhere`, …) are statements about `step`, hence about these three bodies as they stand.
-/
namespace Vakt.GenEquiv
open Vakt PyVal Vakt.PyPrim Vakt.GenSql Vakt.Store Vakt.SqlSession

def SW (s : Sess) : V := .sworld s false Option.none

/-- how a mutation ends, against `SqlSession.step` -/
def SOutcome (m : M) (r : Sess × Out) : Prop :=
  match r.2 with
  | .done => m = .ok (.seq [.py .none, SW r.1])
  | .rejected => m = .error .raised ∨ m = .ok (.sworld r.1 false (some .rejected))
  | .existsErr => m = .ok (.sworld r.1 false (some .existsErr))
  | _ => False

theorem gen_sql_add (s : Sess) (self : V) (u : Uid) (p : Pol) (ok : Bool) :
    SOutcome (add_SQLStorage self (.polv u p ok) (SW s)) (SqlSession.step s (.add u p ok)) := by
  unfold add_SQLStorage SW SOutcome SqlSession.step
  cases ok
  · simp [fromPolicyM, raiseM, bindM]
  · cases hl : lookup u s.view <;>
      simp [fromPolicyM, sessAddM, sessCommitTryM, sessRollbackM, raiseSqlM, pairM, cNone, hl, SW]

theorem rollback_stage (f : St → St) (s : Sess) : rollback (stage f s) = rollback s := rfl

theorem gen_sql_update (s : Sess) (self : V) (u : Uid) (p : Pol) (ok : Bool) :
    SOutcome (update_SQLStorage self (.polv u p ok) (SW s)) (SqlSession.step s (.update u p ok)) := by
  unfold update_SQLStorage SW SOutcome SqlSession.step
  simp only [pure_ok, attrM, bindM_ok, sessGetM]
  cases hl : lookup u s.view with
  | none => simp [hl, tryElseM, pairM, cNone, SW, truth, truthy]
  | some q =>
    cases ok
    · simp [hl, tryElseM, modelUpdateM, raiseM, sessRollbackM, raiseSqlM, rollback_stage, truth]
    · simp [hl, tryElseM, modelUpdateM, sessCommitM, pairM, cNone, SW, truth]

theorem gen_sql_delete (s : Sess) (self : V) (u : Uid) :
    SOutcome (delete_SQLStorage self (.py (.str u)) (SW s)) (SqlSession.step s (.delete u)) := by
  unfold delete_SQLStorage SW SOutcome SqlSession.step
  simp [tryElseM, sessElemDeleteM, sessBulkDeleteM, sessCommitM, pairM, cNone, SW]

/-- `get` reads the session's view and leaves the session alone -/
theorem gen_sql_get (s : Sess) (self : V) (u : Uid) :
    get_SQLStorage self (.py (.str u)) (SW s) =
      (match lookup u s.view with
       | some p => .ok (.seq [.polv u p true, SW s])
       | Option.none => .ok (.seq [.py .none, SW s])) := by
  unfold get_SQLStorage SW
  cases hl : lookup u s.view <;> simp [sessGetM, hl, pairM, cNone, toPolicyM, truth, truthy, bindM]

/-! ### the paged listing (itself a generator) -/

def rowBody : V → List V → (List V → M) → (List V → M) → M := fun l3_policy_model s3 k3 b3 =>
      (bindM (appendM (pure (stGet s3 0)) (toPolicyM (pure l3_policy_model))) fun v___y =>
      (k3 [v___y]))

theorem row_loop (rows : St) : ∀ (acc : List V) (k : List V → M),
    loopS (rows.map fun (x : Uid × Pol) => V.smodel x.1 x.2 true) rowBody [.seq acc] k =
      k [.seq (acc ++ rows.map fun (x : Uid × Pol) => V.polv x.1 x.2 true)] := by
  induction rows with
  | nil => intro acc k; simp [loopS]
  | cons x tail ih =>
    intro acc k
    simp only [List.map_cons, loopS, rowBody, stGet, List.getD_cons_zero, pure_ok, toPolicyM, bindM_ok, appendM, ih,
      List.append_assoc, List.singleton_append]

theorem lt_intS (a b : Int) : cmpLt (.ok (.py (.int a))) (cInt b) = ofBool (Decidable.decide (a < b)) := by
  simp only [cmpLt, cmp2, bindM, cInt, pyLt, pyCmp, asNum, numEq, numLt, liftR, Except.map, ofBool]
  by_cases h1 : a = b
  · subst h1; simp
  · by_cases h2 : a < b
    · simp [h1, h2]
    · simp [h1, h2]

theorem gen_sql_check (s : Sess) (l o : Int) :
    check_limit_and_offset_StorageS (.py (.int l)) (.py (.int o)) (SW s) =
      if Backends.checkLimitOffset l o then .ok (.sworld s false (some .valueError)) else .ok (.seq [.py .none, SW s]) := by
  unfold check_limit_and_offset_StorageS SW Backends.checkLimitOffset
  simp only [pure_ok, lt_intS, ofBool_eq, iteM_ok, truth_bool, raiseSqlM, bindM_ok, pairM, cNone]
  by_cases h1 : l < 0 <;> by_cases h2 : o < 0 <;> simp [h1, h2]

/-- **`SQLStorage.get_all` as written in the source is the model's `sqlGetAll`**: the limit / offset check, then
`ORDER BY uid LIMIT (stop - start) OFFSET start` over the session's view, every row converted back -/
theorem gen_sql_get_all (s : Sess) (self : V) (l o : Int) :
    get_all_SQLStorage self (.py (.int l)) (.py (.int o)) (SW s) =
      (match Backends.sqlGetAll s l o with
       | Option.none => .ok (.sworld s false (some .valueError))
       | some pg => .ok (.seq [.seq (pg.map fun (x : Uid × Pol) => V.polv x.1 x.2 true), SW s])) := by
  unfold get_all_SQLStorage Backends.sqlGetAll
  simp only [pure_ok, bindM_ok, cEmptyList, gen_sql_check]
  by_cases hc : Backends.checkLimitOffset l o = true
  · simp [hc, callProcM]
  · have hc' : Backends.checkLimitOffset l o = false := by simpa using hc
    have hl : 0 ≤ l := by simp [Backends.checkLimitOffset] at hc'; omega
    have ho : 0 ≤ o := by simp [Backends.checkLimitOffset] at hc'; omega
    have hsum : 0 ≤ o + l := by omega
    simp only [hc', Bool.false_eq_true, if_false, callProcM, SW, addM, bindM_ok, sessSliceQueryM, ho, hsum, decide_true,
      Bool.and_self, if_true, pyForS, items]
    have := row_loop (List.take ((o + l).toNat - o.toNat) (List.drop o.toNat (sortUid s.view))) []
      (fun r3 => pairM (Except.ok (stGet r3 0)) (Except.ok (V.sworld s false Option.none)))
    show loopS _ rowBody [V.seq []] _ = _
    rw [this]
    simp [pairM, stGet]

theorem translatedSql_covers : translatedSql = ["_check_limit_and_offset", "get_all", "add", "get", "update", "delete"] := by decide

end Vakt.GenEquiv
