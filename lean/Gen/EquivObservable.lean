import Gen.Observable
import Gen.Lemmas
import Model.Backends
/-!
# The translated methods of `ObservableMutationStorage` are the model's `obsStep`

`Gen/Observable.lean` is produced from `/repo/vakt/storage/observable.py` on every run: `add`, `update`, `delete`, `get`, `get_all`, the
call of the wrapped storage and `self.notify()` made explicit as effects on a world value.  Against `Backends.obsStep` over the
abstract store: a mutation that returns is followed by exactly one notification, one that raises by none, reads by none.
-/
namespace Vakt.GenEquiv
open Vakt PyVal Vakt.PyPrim Vakt.GenObservable Vakt.Store

/-! ### `ObservableMutationStorage` -/

/-- the wrapped storage as the abstract store (no client calls recorded) -/
def absStep (cfg : Cfg) : St → Op → St × Out × List Backends.Call := fun s op => ((Store.step cfg s op).1, (Store.step cfg s op).2, [])

/-- how a method of the observable wrapper ends, against `obsStep`: the wrapped store, the number of notifications, the value -/
def OOutcome (m : M) (cfg : Cfg) (r : Backends.Obs St × Out × List Backends.Call) : Prop :=
  match r.2.1 with
  | .done => m = .ok (.seq [.py .none, .eworld cfg ⟨[], r.1.inner⟩ true r.1.notified Option.none])
  | .pol Option.none => m = .ok (.seq [.py .none, .eworld cfg ⟨[], r.1.inner⟩ true r.1.notified Option.none])
  | .pol (some p) => ∃ u, m = .ok (.seq [.polv u p true, .eworld cfg ⟨[], r.1.inner⟩ true r.1.notified Option.none])
  | .pols l => m = .ok (.seq [.pols l, .eworld cfg ⟨[], r.1.inner⟩ true r.1.notified Option.none])
  | e => m = .ok (.eworld cfg ⟨[], r.1.inner⟩ true r.1.notified (some e))

def OW (cfg : Cfg) (s : St) (n : Nat) : V := .eworld cfg ⟨[], s⟩ false n Option.none

theorem gen_observable_add (cfg : Cfg) (s : St) (n : Nat) (self : V) (u : Uid) (p : Pol) (ok : Bool) :
    OOutcome (add_Observable self (.polv u p ok) (OW cfg s n)) cfg
      (Backends.obsStep (absStep cfg) ⟨s, n⟩ (.add u p ok)) := by
  unfold add_Observable OW OOutcome Backends.obsStep absStep
  simp only [pure_ok, stCallM, bindM_ok, evalArgs, storeOpOf, Store.step, pairM, notifyM, storage_eq, if_true, Backends.isMutation]
  cases ok <;> cases hb : lookup u s <;> simp [hb]

theorem gen_observable_update (cfg : Cfg) (s : St) (n : Nat) (self : V) (u : Uid) (p : Pol) (ok : Bool) :
    OOutcome (update_Observable self (.polv u p ok) (OW cfg s n)) cfg
      (Backends.obsStep (absStep cfg) ⟨s, n⟩ (.update u p ok)) := by
  unfold update_Observable OW OOutcome Backends.obsStep absStep
  simp only [pure_ok, stCallM, bindM_ok, evalArgs, storeOpOf, Store.step, pairM, notifyM, storage_eq, if_true, Backends.isMutation]
  cases ok <;> cases he : cfg.eagerConvert <;> cases hb : lookup u s <;> simp [hb, he]

theorem gen_observable_delete (cfg : Cfg) (s : St) (n : Nat) (self : V) (u : Uid) :
    OOutcome (delete_Observable self (.py (.str u)) (OW cfg s n)) cfg
      (Backends.obsStep (absStep cfg) ⟨s, n⟩ (.delete u)) := by
  unfold delete_Observable OW OOutcome Backends.obsStep absStep
  simp [stCallM, evalArgs, storeOpOf, Store.step, pairM, notifyM, Backends.isMutation]

theorem gen_observable_get (cfg : Cfg) (s : St) (n : Nat) (self : V) (u : Uid) :
    OOutcome (get_Observable self (.py (.str u)) (OW cfg s n)) cfg
      (Backends.obsStep (absStep cfg) ⟨s, n⟩ (.get u)) := by
  unfold get_Observable OW OOutcome Backends.obsStep absStep
  simp only [pure_ok, stCallM, bindM_ok, evalArgs, storeOpOf, Store.step, pairM, storage_eq, if_true, Backends.isMutation]
  cases hb : lookup u s <;> simp [hb, uidArg]

theorem gen_observable_get_all (cfg : Cfg) (s : St) (n : Nat) (self : V) (l o : Int) :
    OOutcome (get_all_Observable self (.py (.int l)) (.py (.int o)) (OW cfg s n)) cfg
      (Backends.obsStep (absStep cfg) ⟨s, n⟩ (.getAll l o)) := by
  unfold get_all_Observable OW OOutcome Backends.obsStep absStep
  simp only [pure_ok, stCallM, bindM_ok, evalArgs, storeOpOf, Store.step, pairM, storage_eq, if_true, Backends.isMutation]
  by_cases hneg : (l < 0 || o < 0) = true
  · simp [hneg]
  · have hneg' : (l < 0 || o < 0) = false := by simpa using hneg
    simp [hneg']

theorem gen_observable_retrieve_all (cfg : Cfg) (s : St) (n : Nat) (self : V) (b : Int) :
    OOutcome (retrieve_all_Observable self (.seq [.py (.int b)]) (.py (.dict [])) (OW cfg s n)) cfg
      (Backends.obsStep (absStep cfg) ⟨s, n⟩ (.retrieveAll b)) := by
  unfold retrieve_all_Observable OW OOutcome Backends.obsStep absStep
  simp only [pure_ok, stCallStarM, bindM_ok, List.map_cons, List.map_nil, stCallM, evalArgs, storeOpOf, Store.step, pairM, storage_eq,
    if_true, Backends.isMutation]
  by_cases hneg : b < 0
  · simp [hneg]
  · simp [hneg]

end Vakt.GenEquiv
