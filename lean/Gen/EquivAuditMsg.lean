import Gen.AuditMsg
import Gen.Lemmas
/-!
# The translated `__str__` methods of the audit message classes are the model's `renderMsg`

`Gen/AuditMsg.lean` is produced from `/repo/vakt/audit.py` on every run.  For every list of policies the text a message object
renders to - nothing, the uids, the quoted descriptions, the count - is the model's `renderMsg` (the last clause of C17).
-/
namespace Vakt.GenEquiv
open Vakt PyVal Vakt.PyPrim Vakt.GenAuditMsg

theorem comp_map {α : Type} (xs : List α) (g : α → V) (f : V → M) (r : α → V) (h : ∀ a, f (g a) = .ok (r a)) :
    compM (xs.map g) f = .ok (xs.map r) := by
  induction xs with
  | nil => rfl
  | cons x rest ih => simp only [List.map_cons, compM, h, ih]

theorem field_uid (p : Policy) : policyFieldM (pure (V.policy p)) "uid" = .ok (.py p.uid) := by
  simp [policyFieldM]

theorem field_desc (p : Policy) : policyFieldM (pure (V.policy p)) "description" = .ok (.py p.description) := by
  simp [policyFieldM]

theorem str_py (v : PyVal) : strM (pure (V.py v)) = .ok (.py (.str (strOf v))) := rfl

theorem quote_py (v : PyVal) :
    fmt1M "'" "'" 's' (pure (V.py v)) = .ok (.py (.str ("'".toList ++ strOf v ++ "'".toList))) := by
  simp [fmt1M]

theorem strOf_str (s : List Char) : strOf (.str s) = s := rfl

theorem strsOf_map (ss : List (List Char)) : strsOf (ss.map fun s => V.py (.str s)) = some ss := by
  induction ss with
  | nil => rfl
  | cons s rest ih => simp [strsOf, ih]

theorem gen_str_nop : str_PoliciesNopMsg = .ok (.py (.str (renderMsg .nop []))) := by
  unfold str_PoliciesNopMsg cStr
  rw [String.toList_empty]
  rfl

theorem gen_str_uid (ps : List Policy) :
    str_PoliciesUidMsg (.seq (ps.map V.policy)) = .ok (.py (.str (renderMsg .uid ps))) := by
  have h1 := comp_map ps V.policy (fun c1_p => policyFieldM (pure c1_p) "uid") (fun p => V.py p.uid) field_uid
  have h2 := comp_map ps (fun p => V.py p.uid) (fun c2_x => strM (pure c2_x)) (fun p => V.py (.str (strOf p.uid)))
    (fun p => str_py p.uid)
  have h3 := strsOf_map (ps.map fun p => strOf p.uid)
  simp only [List.map_map, Function.comp_def] at h3
  unfold str_PoliciesUidMsg
  simp only [listCompM, bindM_ok, pure_ok, items, Except.map] at h1 h2 ⊢
  simp only [h1, bindM_ok, items, h2]
  simp only [joinM, cStr, bindM_ok, h3, fmt1M, strOf_str]
  rfl

theorem gen_str_desc (ps : List Policy) :
    str_PoliciesDescriptionMsg (.seq (ps.map V.policy)) = .ok (.py (.str (renderMsg .desc ps))) := by
  have h1 := comp_map ps V.policy (fun c1_p => policyFieldM (pure c1_p) "description") (fun p => V.py p.description) field_desc
  have h2 := comp_map ps (fun p => V.py p.description) (fun c2_x => fmt1M "'" "'" 's' (pure c2_x))
    (fun p => V.py (.str ("'".toList ++ strOf p.description ++ "'".toList))) (fun p => quote_py p.description)
  have h3 := strsOf_map (ps.map fun p => "'".toList ++ strOf p.description ++ "'".toList)
  simp only [List.map_map, Function.comp_def] at h3
  unfold str_PoliciesDescriptionMsg
  simp only [listCompM, bindM_ok, pure_ok, items, Except.map] at h1 h2 ⊢
  simp only [h1, bindM_ok, items, h2]
  simp only [joinM, cStr, bindM_ok, h3, fmt1M, strOf_str]
  rfl

theorem gen_str_count (ps : List Policy) :
    str_PoliciesCountMsg (.seq (ps.map V.policy)) = .ok (.py (.str (renderMsg .count ps))) := by
  unfold str_PoliciesCountMsg
  simp only [pure_ok, callLen, bindM_ok, cInt, fmt1M, List.length_map, Int.natCast_nonneg, decide_true, if_true, Int.toNat_natCast,
    String.toList_empty, List.append_nil]
  rfl

theorem translatedAuditMsgs_covers :
    translatedAuditMsgs = ["PoliciesNopMsg", "PoliciesUidMsg", "PoliciesDescriptionMsg", "PoliciesCountMsg"] := by decide

end Vakt.GenEquiv
