import Gen.MongoMig
import Gen.Lemmas
import Model.MongoMig
/-!
# The translated `MongoMigration._each_doc` is the model's `eachDoc`

`Gen/MongoMig.lean` is produced from `/repo/vakt/storage/mongo.py` on every run: the loop every data migration of the MongoDB storage
runs its per-document processor through.  For every processor (a function that converts a document or raises - `Irreversible` or
anything else) and every collection: the documents whose processor raised are exactly the ones collected as failed, the error-level
report is written exactly when that list is not empty, **no
`replace_one` is issued for them** (they are left as they are), and every other document is replaced, under its `uid`, by what the
processor returned - the clause of C19 that policies which cannot be converted are left untouched and reported, never dropped or
silently altered.
-/
namespace Vakt.GenEquiv
open Vakt PyVal Vakt.PyPrim Vakt.GenMongoMig Vakt.MongoMig

def kUid : List Char := "uid".toList

/-- the `replace_one` calls and the failed documents of one pass, in order -/
def eachCalls (f : MDoc → Except MErr MDoc) : List MDoc → List (PyVal × MDoc) × List MDoc
  | [] => ([], [])
  | d :: rest =>
    let r := eachCalls f rest
    match f d with
    | .ok d' => (match lookup kUid d' with
        | some u => ((u, d') :: r.1, r.2)
        | Option.none => (r.1, d :: r.2))            -- `new_doc['uid']` raises KeyError: caught, reported
    | .error _ => (r.1, d :: r.2)

/-- one iteration -/
def eachBody (proc : V) : V → List V → (List V → M) → (List V → M) → M := fun l2_doc s2 k2 b2 =>
      (tryElseM (bindM (procCallM (pure proc) (pure l2_doc)) fun v_new_doc =>
      (replaceOneM (subscriptM (pure v_new_doc) (cStr "uid")) (pure v_new_doc) (pure (stGet s2 0)) fun w3 =>
      (k2 [w3, (stGet s2 1)])))
      (bindM (appendM (pure (stGet s2 1)) (pure l2_doc)) fun v_failed_policies =>
      (k2 [(stGet s2 0), v_failed_policies])))

def docV (d : MDoc) : V := .py (.dict d)

/-- what follows the loop: the failed list, whether the error-level report is written (the `if failed_policies:` of the source), and
the collection -/
def eachDone : List V → M := fun r2 => (iteM (pure (stGet r2 1))
      (pairM (pure (stGet r2 1)) (pairM cTrue (pure (stGet r2 0))))
      (pairM (pure (stGet r2 1)) (pairM cFalse (pure (stGet r2 0)))))

/-- the result of a pass: the failed documents, **the report is written exactly when there is one**, the collection -/
def eachResult (failed : List PyVal) (w : V) : M :=
  .ok (.seq [.py (.list failed), .seq [.py (.bool (!failed.isEmpty)), w]])

theorem eachDone_eq (failed : List PyVal) (w : V) : eachDone [w, .py (.list failed)] = eachResult failed w := by
  cases failed <;> rfl

theorem stGet2_0 (a b : V) : stGet [a, b] 0 = a := rfl
theorem stGet2_1 (a b : V) : stGet [a, b] 1 = b := rfl

theorem each_loop (f : MDoc → Except MErr MDoc) (all : List MDoc) (rest : List MDoc) :
    ∀ (reps : List (PyVal × MDoc)) (failed : List PyVal),
      loopS (rest.map docV) (eachBody (.mproc f)) [.mcoll all reps, .py (.list failed)] eachDone =
        eachResult (failed ++ (eachCalls f rest).2.map PyVal.dict) (.mcoll all (reps ++ (eachCalls f rest).1)) := by
  induction rest with
  | nil => intro reps failed; simp [loopS, eachCalls, eachDone_eq]
  | cons d tail ih =>
    intro reps failed
    have hsub : ∀ d' : MDoc, subscriptM (.ok (V.py (.dict d'))) (cStr "uid") =
        (match lookup kUid d' with | some v => .ok (.py v) | Option.none => raiseM) := by
      intro d'; rfl
    simp only [List.map_cons, loopS, eachBody, docV, pure_ok, procCallM, bindM_ok, stGet2_0, stGet2_1, eachCalls]
    cases hf : f d with
    | error e =>
      simp only [bindM, raiseM, tryElseM, appendM, bindM_ok]
      rw [ih reps (failed ++ [PyVal.dict d])]
      simp [List.append_assoc]
    | ok d' =>
      simp only [bindM_ok, hsub]
      cases hu : lookup kUid d' with
      | none =>
        simp only [raiseM, replaceOneM, bindM, tryElseM, appendM, bindM_ok]
        rw [ih reps (failed ++ [PyVal.dict d])]
        simp [List.append_assoc]
      | some u =>
        simp only [replaceOneM, bindM_ok]
        rw [ih (reps ++ [(u, d')]) failed]
        simp [tryElseM, eachResult, List.append_assoc]

/-- **`_each_doc` as written in the source** -/
theorem gen_each_doc (self : V) (f : MDoc → Except MErr MDoc) (docs : List MDoc) :
    each_doc_MongoMigration self (.mproc f) (.mcoll docs []) =
      eachResult ((eachCalls f docs).2.map PyVal.dict) (.mcoll docs (eachCalls f docs).1) := by
  have h := each_loop f docs docs [] []
  simp only [List.nil_append] at h
  have e : each_doc_MongoMigration self (.mproc f) (.mcoll docs []) =
      loopS (docs.map docV) (eachBody (.mproc f)) [.mcoll docs [], .py (.list [])] eachDone := rfl
  rw [e, h]

/-- what is reported as failed is what the model's `eachDoc` reports, for a processor whose results carry a `uid` -/
theorem each_failed_eq (f : MDoc → Except MErr MDoc) (hu : ∀ d d', f d = .ok d' → (lookup kUid d').isSome = true) :
    ∀ docs : List MDoc, (eachCalls f docs).2 = (eachDoc f docs).2 := by
  intro docs
  induction docs with
  | nil => rfl
  | cons d rest ih =>
    simp only [eachCalls, eachDoc]
    cases hf : f d with
    | error e => simp [ih]
    | ok d' =>
      have := hu d d' hf
      cases hl : lookup kUid d' with
      | none => rw [hl] at this; cases this
      | some u => simp [hl, ih]

theorem translatedMongoMig_covers : translatedMongoMig = ["_each_doc"] := by decide

end Vakt.GenEquiv
