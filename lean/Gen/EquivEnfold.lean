import Gen.Enfold
import Gen.Lemmas
/-!
# The translated methods of `EnfoldCache` are the model's `Enfold.step`

`Gen/Enfold.lean` is produced from `/repo/vakt/cache.py` on every run: `add`, `update`, `delete`, `get`, `get_all` and `populate`
of the enfolding cache, with every call of `self.storage` / `self.cache` made explicit as an effect on a world value (the two
stores, whether the backend was called, the exception a call ended in).  Run on a world holding any two stores, each translated
method ends in exactly the pair of stores `Enfold.step` computes, returns (or raises) exactly what it says, and calls the backend
exactly when it says so.
-/
namespace Vakt.GenEquiv
open Vakt PyVal Vakt.PyPrim Vakt.GenEnfold Vakt.Store Vakt.Enfold

/-- the world before a call: nothing raised, the backend not yet called -/
def W0 (cfg : Cfg) (s : EState) : V := .eworld cfg s false 0 Option.none

/-- how a method call ends, against the model's (state, output, backend touched) -/
def EOutcome (m : M) (cfg : Cfg) (r : EState × Out × Bool) : Prop :=
  match r.2.1 with
  | .done => m = .ok (.seq [.py .none, .eworld cfg r.1 r.2.2 0 Option.none])
  | .pol Option.none => m = .ok (.seq [.py .none, .eworld cfg r.1 r.2.2 0 Option.none])
  | .pol (some p) => ∃ u, m = .ok (.seq [.polv u p true, .eworld cfg r.1 r.2.2 0 Option.none])
  | .pols l => m = .ok (.seq [.pols l, .eworld cfg r.1 r.2.2 0 Option.none])
  | e => m = .ok (.eworld cfg r.1 r.2.2 0 (some e))

theorem gen_enfold_add (cfg : Cfg) (s : EState) (self : V) (u : Uid) (p : Pol) (ok : Bool) :
    EOutcome (add_EnfoldCache self (.polv u p ok) (W0 cfg s)) cfg (Enfold.step cfg s (.add u p ok)) := by
  unfold add_EnfoldCache W0 EOutcome Enfold.step
  simp only [pure_ok, stCallM, bindM_ok, evalArgs, storeOpOf, Store.step, pairM]
  cases ok <;> cases hb : lookup u s.backend <;> cases hc : lookup u s.cache <;> simp [hb, hc, memCfg]

theorem gen_enfold_update (cfg : Cfg) (s : EState) (self : V) (u : Uid) (p : Pol) (ok : Bool) :
    EOutcome (update_EnfoldCache self (.polv u p ok) (W0 cfg s)) cfg (Enfold.step cfg s (.update u p ok)) := by
  unfold update_EnfoldCache W0 EOutcome Enfold.step
  simp only [pure_ok, stCallM, bindM_ok, evalArgs, storeOpOf, Store.step, pairM]
  cases ok <;> cases he : cfg.eagerConvert <;> cases hb : lookup u s.backend <;> cases hc : lookup u s.cache <;>
    simp [hb, hc, he, memCfg]

theorem gen_enfold_delete (cfg : Cfg) (s : EState) (self : V) (u : Uid) :
    EOutcome (delete_EnfoldCache self (.py (.str u)) (W0 cfg s)) cfg (Enfold.step cfg s (.delete u)) := by
  unfold delete_EnfoldCache W0 EOutcome Enfold.step
  simp [stCallM, evalArgs, storeOpOf, Store.step, pairM]

theorem gen_enfold_get (cfg : Cfg) (s : EState) (self : V) (u : Uid) :
    EOutcome (get_EnfoldCache self (.py (.str u)) (W0 cfg s)) cfg (Enfold.step cfg s (.get u)) := by
  unfold get_EnfoldCache W0 EOutcome Enfold.step
  simp only [pure_ok, stCallM, bindM_ok, evalArgs, storeOpOf, Store.step, pairM]
  cases hc : lookup u s.cache <;> cases hb : lookup u s.backend <;> simp [hb, hc, truth, truthy, uidArg]

theorem len_gt_zero (n : Nat) : cmpGt (cInt (n : Int)) (cInt 0) = ofBool (Decidable.decide (0 < n)) := by
  simp only [cmpGt, cmp2, bindM, cInt, pyGt, pyCmp, asNum, numEq, numLt, liftR, Except.map, ofBool]
  cases n with
  | zero => simp
  | succ k =>
    have h1 : ¬ ((k : Int) + 1 = 0) := by omega
    have h2 : ¬ ((k : Int) + 1 < 0) := by omega
    simp [h1, h2]

theorem gen_enfold_get_all (cfg : Cfg) (s : EState) (self : V) (l o : Int) :
    EOutcome (get_all_EnfoldCache self (.py (.int l)) (.py (.int o)) (W0 cfg s)) cfg (Enfold.step cfg s (.getAll l o)) := by
  unfold get_all_EnfoldCache W0 EOutcome Enfold.step
  simp only [pure_ok, stCallM, bindM_ok, evalArgs, storeOpOf, Store.step, pairM, cache_ne, storage_eq, Bool.false_eq_true,
    if_false, if_true]
  by_cases hneg : (l < 0 || o < 0) = true
  · simp [hneg]
  · have hneg' : (l < 0 || o < 0) = false := by simpa using hneg
    simp only [hneg', Bool.false_eq_true, if_false, callList, bindM_ok, callLen]
    cases hp : page (listing memCfg s.cache) l.toNat o.toNat with
    | nil =>
      have h0 := len_gt_zero 0
      simp only [Int.natCast_zero] at h0
      have hp' : page (listing memCfg s.cache) l.toNat o.toNat = [] := hp
      simp only [hp', List.length_nil, Int.natCast_zero, h0]
      simp [truth, truthy]
    | cons x xs =>
      have h1 := len_gt_zero (xs.length + 1)
      simp only [hp, List.length_cons, h1]
      simp [truth, truthy]

/-- one iteration of `populate`'s loop -/
def popBody : V → List V → (List V → M) → (List V → M) → M := fun l2_p s2 k2 b2 =>
      (stCallM "cache" "add" [(pure l2_p)] (pure (stGet s2 0)) fun r3 w3 =>
      (k2 [w3]))

def polsV (l : St) : List V := l.map fun (x : Uid × Pol) => V.polv x.1 x.2 true

theorem pop_loop (cfg : Cfg) (b : St) (all : St) : ∀ (c : St),
    loopS (polsV all) popBody [.eworld cfg ⟨c, b⟩ true 0 Option.none] (fun r2 => pairM cNone (pure (stGet r2 0))) =
      (match (feed c all).2 with
       | .done => .ok (.seq [.py .none, .eworld cfg ⟨(feed c all).1, b⟩ true 0 Option.none])
       | e => .ok (.eworld cfg ⟨(feed c all).1, b⟩ true 0 (some e))) := by
  induction all with
  | nil => intro c; simp [polsV, loopS, feed, pairM, stGet, cNone]
  | cons x rest ih =>
    intro c
    obtain ⟨u, p⟩ := x
    simp only [polsV, List.map_cons, loopS, popBody, stGet, List.getD_cons_zero, pure_ok, stCallM, bindM_ok, evalArgs,
      storeOpOf, cache_ne, Bool.false_eq_true, if_false, Store.step, Bool.not_true, Bool.or_false, feed]
    cases hc : lookup u c with
    | some q => simp
    | none =>
      simp only []
      exact ih (c ++ [(u, p)])

theorem feed_out (all : St) : ∀ c : St, (feed c all).2 = .done ∨ (feed c all).2 = .existsErr := by
  induction all with
  | nil => intro c; left; rfl
  | cons x rest ih =>
    intro c
    obtain ⟨u, p⟩ := x
    simp only [feed, Store.step, Bool.not_true, Bool.false_eq_true, if_false]
    cases hc : lookup u c with
    | some q => right; rfl
    | none => exact ih _

theorem retrieve_call (cfg : Cfg) (s : EState) (batch : Nat) (k : V → V → M) :
    stCallM "storage" "retrieve_all" [.ok (.py (.int (batch : Int)))] (.ok (.eworld cfg s false 0 Option.none)) k =
      k (.pols (retrieveAll (listing cfg s.backend) batch)) (.eworld cfg ⟨s.cache, s.backend⟩ true 0 Option.none) := by
  have hb : ¬ ((batch : Int) < 0) := by omega
  simp [stCallM, evalArgs, storeOpOf, Store.step, hb]

theorem gen_enfold_populate (cfg : Cfg) (s : EState) (self : V) (batch : Nat) :
    EOutcome (populate_EnfoldCache self (.py (.int (batch : Int))) (W0 cfg s)) cfg (Enfold.step cfg s (.populate batch)) := by
  unfold populate_EnfoldCache W0
  simp only [pure_ok]
  rw [retrieve_call]
  simp only [pyForS, bindM_ok, items]
  show EOutcome (loopS (polsV (retrieveAll (listing cfg s.backend) batch)) popBody
    [.eworld cfg ⟨s.cache, s.backend⟩ true 0 Option.none] (fun r2 => pairM cNone (pure (stGet r2 0)))) cfg _
  rw [pop_loop]
  unfold EOutcome Enfold.step
  simp only []
  rcases feed_out (retrieveAll (listing cfg s.backend) batch) s.cache with h | h <;> simp only [h]

/-- **`EnfoldCache.retrieve_all(*args, **kwargs)`** called with the batch size as its one positional argument -/
theorem gen_enfold_retrieve_all (cfg : Cfg) (s : EState) (self : V) (b : Int) :
    EOutcome (retrieve_all_EnfoldCache self (.seq [.py (.int b)]) (.py (.dict [])) (W0 cfg s)) cfg
      (Enfold.step cfg s (.retrieveAll b)) := by
  unfold retrieve_all_EnfoldCache W0 EOutcome Enfold.step
  simp only [pure_ok, stCallStarM, bindM_ok, List.map_cons, List.map_nil, stCallM, evalArgs, storeOpOf, Store.step, pairM, cache_ne,
    storage_eq, Bool.false_eq_true, if_false, if_true]
  by_cases hneg : b < 0
  · simp [hneg]
  · simp only [hneg, decide_false, Bool.false_eq_true, if_false, callList, bindM_ok, callLen]
    cases hp : retrieveAll (listing memCfg s.cache) b.toNat with
    | nil =>
      have h0 := len_gt_zero 0
      simp only [Int.natCast_zero] at h0
      simp only [List.length_nil, Int.natCast_zero, h0]
      simp [truth, truthy]
    | cons x xs =>
      have h1 := len_gt_zero (xs.length + 1)
      simp only [List.length_cons, h1]
      simp [truth, truthy]

end Vakt.GenEquiv
