import Gen.Parser
import Gen.Lemmas
import Gen.EquivParser
import Props.C03
/-!
# The translated `compile_regex` is the model's index form followed by `piecesRe`

`Gen/Parser.lean` is produced from `/repo/vakt/parser.py` on every run.  `compile_regex` - the call of `get_tag_indices`, the loop over
`enumerate(indices[::2])` with its slicing (`phrase[end:idx]`, `indices[2*i+1]`, `phrase[idx+1:end-1]`), the segment compiled on its
own, the assembled pattern compiled at the end - yields the compiled form of exactly the pieces `piecesFrom` cuts out of the phrase
(which `index_form_eq_scanner` shows to be the scanner's pieces), and raises exactly when the delimiters are unbalanced or some segment
is not a regular expression.  The pattern *text* is kept symbolic (escaped literals and parenthesised segments in order): that
`re.compile` of that text is the regular expression `piecesRe` builds is the model's own assumption about `re` (`Model/Regex.lean`).
-/
namespace Vakt.GenEquiv
open Vakt PyVal Vakt.PyPrim Vakt.GenParser Vakt.TagParser

def isOkP : ParseRes Re → Bool
  | .ok _ _ => true
  | _ => false

def segsOk : List Piece → Bool
  | [] => true
  | Piece.lit _ :: ps => segsOk ps
  | Piece.seg x :: ps => isOkP (parsePattern x) && segsOk ps

theorem piecesRe_ok_iff (ps : List Piece) : isOkP (piecesRe ps) = segsOk ps := by
  induction ps with
  | nil => rfl
  | cons p rest ih =>
    cases p with
    | lit l => simp only [piecesRe, segsOk]; rw [← ih]; cases piecesRe rest <;> rfl
    | seg x =>
      simp only [piecesRe, segsOk]
      rw [← ih]
      cases parsePattern x <;> cases piecesRe rest <;> rfl

theorem segsOk_append (a b : List Piece) : segsOk (a ++ b) = (segsOk a && segsOk b) := by
  induction a with
  | nil => simp [segsOk]
  | cons p rest ih => cases p <;> simp [segsOk, ih, Bool.and_assoc]

/-- the compiled form of a list of pieces, or `re.error` -/
def compiledOf (ps : List Piece) : M :=
  match piecesRe ps with
  | .ok r _ => .ok (.pattern r)
  | _ => raiseM

theorem compiledOf_bad (ps : List Piece) (h : segsOk ps = false) : compiledOf ps = raiseM := by
  unfold compiledOf
  have := piecesRe_ok_iff ps
  rw [h] at this
  cases hp : piecesRe ps with
  | ok r rest => rw [hp] at this; cases this
  | invalid => rfl
  | unsupported => rfl

/-- the pattern variable: `''` before the first segment, the pieces so far afterwards -/
def patV (acc : List Piece) : V := if acc.isEmpty then .py (.str []) else .ptext acc

/-- one iteration of the loop of `compile_regex` -/
def crBody (phrase indices : V) : V → List V → (List V → M) → (List V → M) → M := fun l4_pair s4 k4 b4 =>
      (bindM (seqItemM (pure l4_pair) 0) fun l4_i =>
      (bindM (seqItemM (pure l4_pair) 1) fun l4_idx =>
      (bindM (strSliceM (pure phrase) (pure (stGet s4 0)) (pure l4_idx)) fun v_raw =>
      (bindM (subscriptM (pure indices) (addM (mulM (cInt (2)) (pure l4_i)) (cInt (1)))) fun v_end =>
      (bindM (strSliceM (pure phrase) (addM (pure l4_idx) (cInt (1))) (subM (pure v_end) (cInt (1)))) fun v_part =>
      (bindM (ptGroupM (pure (stGet s4 1)) (reEscapeM (pure v_raw)) (pure v_part)) fun v_pattern =>
      (bindM (floordivM (pure l4_i) (cInt (2))) fun _ =>
      (bindM (reCompileSegM (pure v_part)) fun _ =>
      (k4 [v_end, v_pattern])))))))))

/-- what follows the loop -/
def crDone (phrase : V) : List V → M := fun r4 =>
      (bindM (strSliceFromM (pure phrase) (pure (stGet r4 0))) fun v_raw =>
      (reCompileFullM (pure (stGet r4 1)) (reEscapeM (pure v_raw))))

theorem stGet2_0' (a b : V) : stGet [a, b] 0 = a := rfl
theorem stGet2_1' (a b : V) : stGet [a, b] 1 = b := rfl

theorem crDone_eq (e : List Char) (endp : Nat) (acc : List Piece) :
    crDone (.py (.str e)) [.py (.int endp), patV acc] = compiledOf (acc ++ [Piece.lit (e.drop endp)]) := by
  simp only [crDone, stGet2_0', stGet2_1', pure_ok, strSliceFromM, bindM_ok, Int.natCast_nonneg, decide_true, if_true,
    Int.toNat_natCast, reEscapeM, reCompileFullM, patV, compiledOf]
  cases acc with
  | nil => simp; rfl
  | cons p rest => simp; rfl

theorem cr_loop (e : List Char) (fl : List PyVal) (rest : List (Nat × Nat)) : ∀ (i endp : Nat) (acc : List Piece),
    (∀ j (h : j < rest.length), fl[2 * (i + j) + 1]? = some (.int ((rest[j]'h).2 : Int))) →
    (∀ ab ∈ rest, 1 ≤ ab.2) →
    loopS (enumV i (rest.map fun (ab : Nat × Nat) => V.py (.int (ab.1 : Int)))) (crBody (.py (.str e)) (.py (.list fl)))
        [.py (.int endp), patV acc] (crDone (.py (.str e))) =
      compiledOf (acc ++ piecesFrom e rest endp) := by
  induction rest with
  | nil => intro i endp acc _ _; simp only [List.map_nil, enumV, loopS, crDone_eq, piecesFrom]
  | cons ab tail ih =>
    intro i endp acc hfl hpos
    obtain ⟨idx, e2⟩ := ab
    have h0 := hfl 0 (by simp)
    simp only [Nat.add_zero, List.getElem_cons_zero] at h0
    have he2 : 1 ≤ e2 := hpos (idx, e2) (List.mem_cons_self)
    have hidx : (fl[(2 * (i : Int) + 1).toNat]?) = some (.int (e2 : Int)) := by
      have : (2 * (i : Int) + 1).toNat = 2 * i + 1 := by omega
      rw [this]; exact h0
    have hnn : (0 : Int) ≤ 2 * (i : Int) + 1 := by omega
    have hsub : ((e2 : Int) - 1).toNat = e2 - 1 := by omega
    have hsubnn : (0 : Int) ≤ (e2 : Int) - 1 := by omega
    have hadd : ((idx : Int) + 1).toNat = idx + 1 := by omega
    have haddnn : (0 : Int) ≤ (idx : Int) + 1 := by omega
    simp only [List.map_cons, enumV, loopS, crBody, pure_ok, seqItemM, bindM_ok, List.getElem?_cons_zero, List.getElem?_cons_succ,
      stGet2_0', stGet2_1', strSliceM, Int.natCast_nonneg, decide_true, Bool.and_self, if_true, Int.toNat_natCast,
      mulM, addM, subM, cInt, subscriptM, hidx, hnn, hsub, hsubnn, hadd, haddnn, reEscapeM, floordivM, reCompileSegM, piecesFrom]
    have hpat : ptGroupM (.ok (patV acc)) (.ok (.ptext [Piece.lit (slice e endp idx)]))
        (.ok (V.py (.str (slice e (idx + 1) (e2 - 1))))) =
        .ok (patV (acc ++ [Piece.lit (slice e endp idx), Piece.seg (slice e (idx + 1) (e2 - 1))])) := by
      cases acc with
      | nil => simp [ptGroupM, patV]
      | cons p rest => simp [ptGroupM, patV]
    simp only [hpat, bindM_ok]
    have h2 : (0 : Int) < 2 := by omega
    simp only [h2, decide_true, if_true, bindM_ok]
    cases hp : parsePattern (slice e (idx + 1) (e2 - 1)) with
    | ok r restc =>
      simp only [bindM_ok]
      have hfl' : ∀ j (h : j < tail.length), fl[2 * (i + 1 + j) + 1]? = some (.int ((tail[j]'h).2 : Int)) := by
        intro j h
        have := hfl (j + 1) (by simp; omega)
        simp only [List.getElem_cons_succ] at this
        have e1 : 2 * (i + (j + 1)) + 1 = 2 * (i + 1 + j) + 1 := by omega
        rw [e1] at this
        exact this
      have hpos' : ∀ ab ∈ tail, 1 ≤ ab.2 := fun ab h => hpos ab (List.mem_cons_of_mem _ h)
      have := ih (i + 1) e2 (acc ++ [Piece.lit (slice e endp idx), Piece.seg (slice e (idx + 1) (e2 - 1))]) hfl' hpos'
      rw [this]
      simp [List.append_assoc]
    | invalid =>
      simp only [raiseM, bindM]
      symm
      apply compiledOf_bad
      simp [segsOk_append, segsOk, hp, isOkP]
    | unsupported =>
      simp only [raiseM, bindM]
      symm
      apply compiledOf_bad
      simp [segsOk_append, segsOk, hp, isOkP]

theorem everyOther_flat (ix : List (Nat × Nat)) : everyOther (flat ix) = ix.map fun ab => PyVal.int (ab.1 : Int) := by
  induction ix with
  | nil => rfl
  | cons ab rest ih =>
    have : flat (ab :: rest) = PyVal.int ab.1 :: PyVal.int ab.2 :: flat rest := by simp [flat]
    rw [this]
    simp only [everyOther, List.map_cons, ih]

theorem flat_odd (ix : List (Nat × Nat)) : ∀ j (h : j < ix.length), (flat ix)[2 * j + 1]? = some (.int ((ix[j]'h).2 : Int)) := by
  induction ix with
  | nil => intro j h; cases h
  | cons ab rest ih =>
    intro j h
    have hf : flat (ab :: rest) = PyVal.int ab.1 :: PyVal.int ab.2 :: flat rest := by simp [flat]
    rw [hf]
    cases j with
    | zero => simp
    | succ k =>
      have hk : k < rest.length := by simpa using h
      have e1 : 2 * (k + 1) + 1 = (2 * k + 1) + 1 + 1 := by omega
      rw [e1]
      simp only [List.getElem?_cons_succ, List.getElem_cons_succ]
      exact ih k hk

theorem tagIdxAux_pos (s t : Char) (cs : List Char) : ∀ (i idx level : Nat) (acc res : List (Nat × Nat)),
    (∀ ab ∈ acc, 1 ≤ ab.2) → tagIdxAux s t cs i idx level acc = some res → ∀ ab ∈ res, 1 ≤ ab.2 := by
  induction cs with
  | nil =>
    intro i idx level acc res hacc h
    cases level with
    | zero => simp only [tagIdxAux] at h; cases h; exact hacc
    | succ n => simp [tagIdxAux] at h
  | cons c rest ih =>
    intro i idx level acc res hacc h
    simp only [tagIdxAux] at h
    by_cases hs : c = s
    · simp only [hs, if_true] at h
      exact ih _ _ _ _ _ hacc h
    · simp only [hs, if_false] at h
      by_cases ht : c = t
      · simp only [ht, if_true] at h
        cases level with
        | zero => simp at h
        | succ n =>
          cases n with
          | zero =>
            simp only at h
            refine ih _ _ _ _ _ ?_ h
            intro ab hab
            simp only [List.mem_append, List.mem_singleton] at hab
            rcases hab with hab | hab
            · exact hacc ab hab
            · subst hab; simp
          | succ m =>
            simp only at h
            exact ih _ _ _ _ _ hacc h
      · simp only [ht, if_false] at h
        exact ih _ _ _ _ _ hacc h

/-- **`compile_regex` as written in the source**: the compiled form of the pieces the index form cuts out of the phrase
(`scanByIndex`, which `index_form_eq_scanner` shows to be the scanner's pieces); `InvalidPatternError` for unbalanced delimiters,
`re.error` as soon as one segment is not a regular expression on its own -/
theorem gen_compile_regex (s t : Char) (e : List Char) :
    compile_regex (.py (.str e)) (.py (.str [s])) (.py (.str [t])) =
      (match scanByIndex s t e with
       | Option.none => raiseM
       | some ps => compiledOf ps) := by
  have hg := gen_get_tag_indices s t e
  unfold compile_regex scanByIndex
  simp only [pure_ok, bindM_ok, cEmptyPyList, cStr, cInt, hg]
  cases hix : tagIndices s t e with
  | none => simp [bindM, raiseM]
  | some ix =>
    have hpos : ∀ ab ∈ ix, 1 ≤ ab.2 := tagIdxAux_pos s t e 0 0 0 [] ix (fun ab h => by cases h) hix
    have hfl : ∀ j (h : j < ix.length), (flat ix)[2 * (0 + j) + 1]? = some (.int ((ix[j]'h).2 : Int)) := by
      intro j h; rw [Nat.zero_add]; exact flat_odd ix j h
    have hloop := cr_loop e (flat ix) ix 0 0 [] hfl hpos
    have hen : enumerateM (stepSlice2M (.ok (V.py (.list (flat ix))))) =
        .ok (.seq (enumV 0 (ix.map fun (ab : Nat × Nat) => V.py (.int (ab.1 : Int))))) := by
      simp [enumerateM, stepSlice2M, items, everyOther_flat, List.map_map, Function.comp_def]
    simp only [bindM_ok, Option.map_some, List.nil_append] at hloop ⊢
    show pyForS (enumerateM (stepSlice2M (.ok (V.py (.list (flat ix)))))) (crBody (.py (.str e)) (.py (.list (flat ix))))
      [.py (.int 0), .py (.str "".toList)] (crDone (.py (.str e))) = _
    rw [hen]
    simp only [pyForS, bindM_ok, items]
    have hp0 : (V.py (.str "".toList)) = patV [] := by
      simp [patV, String.toList_empty]
    rw [hp0]
    exact hloop

/-- … in the scanner's words (C03's `index_form_eq_scanner`): literal text outside the delimiters, every top-level tagged segment a
regular expression of its own -/
theorem gen_compile_regex_scan (s t : Char) (e : List Char) :
    compile_regex (.py (.str e)) (.py (.str [s])) (.py (.str [t])) =
      (match scan s t e with
       | Option.none => raiseM
       | some ps => compiledOf ps) := by
  rw [gen_compile_regex, Vakt.C03.index_form_eq_scanner]

end Vakt.GenEquiv
