import Model.PyPrim
/-! Evaluation lemmas for the primitives of `Model/PyPrim.lean`, shared by `Gen/Equiv.lean` and `Gen/EquivCheckers.lean`. -/
namespace Vakt.GenEquiv
open Vakt PyVal Vakt.PyPrim

@[simp] theorem pure_ok (v : V) : (pure v : M) = .ok v := rfl
@[simp] theorem bindM_ok (v : V) (f : V → M) : bindM (.ok v) f = f v := rfl
@[simp] theorem bindM_error (e : PyErr) (f : V → M) : bindM (.error e) f = .error e := rfl
@[simp] theorem iteM_ok (v : V) (t e : M) : iteM (.ok v) t e = if truth v then t else e := rfl
@[simp] theorem pyNot_ok (v : V) : pyNot (.ok v) = .ok (.py (.bool (!truth v))) := rfl
@[simp] theorem notM_error (e : PyErr) : pyNot (.error e) = .error e := rfl
@[simp] theorem truthy_bool (b : Bool) : PyVal.truthy (.bool b) = b := rfl
@[simp] theorem iteM_error (e : PyErr) (t f : M) : iteM (.error e) t f = .error e := rfl
@[simp] theorem ofBool_eq (b : Bool) : ofBool b = .ok (.py (.bool b)) := rfl
@[simp] theorem truth_bool (b : Bool) : truth (.py (.bool b)) = b := rfl
@[simp] theorem truth_inq (q : Option Inquiry) : truth (.inq q) = q.isSome := rfl
@[simp] theorem truth_set (xs : List PyVal) : truth (.set xs) = !xs.isEmpty := rfl
@[simp] theorem toR_ok (v : V) : toR (.ok v) = .ok (truth v) := rfl
@[simp] theorem toR_error (e : PyErr) : toR (.error e) = .error e := rfl
@[simp] theorem cTrue_eq : cTrue = .ok (.py (.bool true)) := rfl
@[simp] theorem cFalse_eq : cFalse = .ok (.py (.bool false)) := rfl
@[simp] theorem liftR_ok (b : Bool) : liftR (.ok b) = .ok (.py (.bool b)) := rfl
@[simp] theorem liftR_error (e : PyErr) : liftR (.error e) = .error e := rfl
@[simp] theorem callBool_ok (v : V) : callBool (.ok v) = .ok (.py (.bool (truth v))) := rfl

theorem toR_liftR (r : R) : toR (liftR r) = r := by cases r <;> rfl
theorem toR_notM_liftR (r : R) : toR (pyNot (liftR r)) = r.map (!·) := by cases r <;> rfl


theorem cache_ne : ("cache" == "storage") = false := by decide
theorem storage_eq : ("storage" == "storage") = true := by decide

end Vakt.GenEquiv
