import Gen.Inquiry
import Gen.Lemmas
import Model.InquiryEq
/-!
# The translated `Inquiry.__init__` is the model's `Inquiry.mk'`

`Gen/Inquiry.lean` is produced from `/repo/vakt/guard.py` on every run.  Called on a fresh object with any four values, the
translated initialiser leaves exactly the four attributes of `Inquiry.mk'` - a falsy argument replaced by `''` (by `{}` for the
context) - which is the normalisation clause of C13.
-/
namespace Vakt.GenEquiv
open Vakt PyVal Vakt.PyPrim Vakt.GenInquiry

theorem or_default (v d : PyVal) : pyOr (.ok (V.py v)) (fun _ => .ok (V.py d)) = .ok (V.py (if truthy v then v else d)) := by
  simp only [pyOr, bindM_ok, truth]
  by_cases h : truthy v = true
  · simp [h]
  · simp [h]

/-- **`Inquiry.__init__` as written in the source** -/
theorem gen_inquiry_init (r a s c : PyVal) :
    init_Inquiry (.obj []) (.py r) (.py a) (.py s) (.py c) =
      .ok (.seq [.py .none, .obj [("resource", .py (Inquiry.mk' r a s c).resource), ("action", .py (Inquiry.mk' r a s c).action),
                                   ("subject", .py (Inquiry.mk' r a s c).subject), ("context", .py (Inquiry.mk' r a s c).context)]]) := by
  have e1 : (cStr "" : M) = .ok (V.py (.str [])) := by
    unfold cStr; rw [String.toList_empty]
  unfold init_Inquiry
  simp only [pure_ok, e1, cEmptyDict, or_default]
  simp [objSetK, cStr, objSet, pairM, cNone, Inquiry.mk']

theorem translatedInquiry_covers : translatedInquiry = ["__init__"] := by decide

end Vakt.GenEquiv
