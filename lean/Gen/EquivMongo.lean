import Gen.Mongo
import Gen.Lemmas
import Model.Backends
/-!
# The translated `add` / `get` / `update` / `delete` of `MongoStorage` are the concrete model `mongoStep`

`Gen/Mongo.lean` is produced from `/repo/vakt/storage/mongo.py` on every run, the collection calls (`insert_one` with its
`DuplicateKeyError` handler, `find_one`, `update_one(..., upsert=False)`, `delete_one`) being effects on the collection; a document
stands for the policy it encodes (what the document *is* belongs to C09).  A policy the conversion refuses makes `add` / `update` raise
before the collection is touched (the method ends in an exception: `rejected` in the model).
-/
namespace Vakt.GenEquiv
open Vakt PyVal Vakt.PyPrim Vakt.GenMongo Vakt.Store Vakt.Backends

def MgW (c : Coll) : V := .mworld c Option.none

/-- how a method ends, against `mongoStep` (its recorded client calls aside) -/
def MgOutcome (m : M) (r : Coll × Out × List Call) : Prop :=
  match r.2.1 with
  | .done => m = .ok (.seq [.py .none, MgW r.1])
  | .pol Option.none => m = .ok (.seq [.py .none, MgW r.1])
  | .pol (some p) => ∃ u, m = .ok (.seq [.polv u p true, MgW r.1])
  | .rejected => m = .error .raised
  | .pols _ => False
  | e => m = .ok (.mworld r.1 (some e))

theorem gen_mongo_add (c : Coll) (self : V) (u : Uid) (p : Pol) (ok : Bool) :
    MgOutcome (add_MongoStorage self (.polv u p ok) (MgW c)) (mongoStep c (.add u p ok)) := by
  unfold add_MongoStorage MgW MgOutcome mongoStep
  cases ok
  · simp [prepareDocM, insertOneM, raiseM, bindM]
  · cases hd : dictGet u c <;> simp [prepareDocM, insertOneM, hd, pairM, cNone, raiseMongoM, MgW]

theorem gen_mongo_update (c : Coll) (self : V) (u : Uid) (p : Pol) (ok : Bool) :
    MgOutcome (update_MongoStorage self (.polv u p ok) (MgW c)) (mongoStep c (.update u p ok)) := by
  unfold update_MongoStorage MgW MgOutcome mongoStep
  cases ok
  · simp [attrM, prepareDocM, updateOneM, raiseM, bindM]
  · cases hd : dictGet u c <;> simp [attrM, prepareDocM, updateOneM, hd, pairM, cNone, MgW]

theorem gen_mongo_delete (c : Coll) (self : V) (u : Uid) :
    MgOutcome (delete_MongoStorage self (.py (.str u)) (MgW c)) (mongoStep c (.delete u)) := by
  unfold delete_MongoStorage MgW MgOutcome mongoStep
  simp [deleteOneM, pairM, cNone, MgW]

theorem gen_mongo_get (c : Coll) (self : V) (u : Uid) :
    MgOutcome (get_MongoStorage self (.py (.str u)) (MgW c)) (mongoStep c (.get u)) := by
  unfold get_MongoStorage MgW MgOutcome mongoStep
  cases hd : dictGet u c <;> simp [findOneM, hd, pairM, cNone, MgW, truth, truthy, fromDocM, bindM]

theorem translatedMongo_covers : translatedMongo = ["add", "get", "update", "delete"] := by decide

end Vakt.GenEquiv
