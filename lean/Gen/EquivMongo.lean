import Gen.Mongo
import Gen.Lemmas
import Model.Backends
/-!
# The translated `add` / `get` / `update` / `delete` of `MongoStorage` are the concrete model `mongoStep`

`Gen/Mongo.lean` is produced from `/repo/vakt/storage/mongo.py` on every run, the collection calls (`insert_one` with its
`DuplicateKeyError` handler, `find_one`, `update_one(..., upsert=False)`, `delete_one`) being effects on the collection; a document
stands for the policy it encodes (what the document *is* belongs to C09).  A policy the conversion refuses makes `add` / `update` raise
before the collection is touched (the method ends in an exception: `rejected` in the model).
-/
namespace Vakt.GenEquiv
open Vakt PyVal Vakt.PyPrim Vakt.GenMongo Vakt.Store Vakt.Backends

def MgW (c : Coll) : V := .mworld c Option.none

/-- how a method ends, against `mongoStep` (its recorded client calls aside) -/
def MgOutcome (m : M) (r : Coll × Out × List Call) : Prop :=
  match r.2.1 with
  | .done => m = .ok (.seq [.py .none, MgW r.1])
  | .pol Option.none => m = .ok (.seq [.py .none, MgW r.1])
  | .pol (some p) => ∃ u, m = .ok (.seq [.polv u p true, MgW r.1])
  | .rejected => m = .error .raised
  | .pols l => m = .ok (.seq [.seq (l.map fun (x : Uid × Pol) => V.polv x.1 x.2 true), MgW r.1])
  | e => m = .ok (.mworld r.1 (some e))

theorem gen_mongo_add (c : Coll) (self : V) (u : Uid) (p : Pol) (ok : Bool) :
    MgOutcome (add_MongoStorage self (.polv u p ok) (MgW c)) (mongoStep c (.add u p ok)) := by
  unfold add_MongoStorage MgW MgOutcome mongoStep
  cases ok
  · simp [prepareDocM, insertOneM, raiseM, bindM]
  · cases hd : dictGet u c <;> simp [prepareDocM, insertOneM, hd, pairM, cNone, raiseMongoM, MgW]

theorem gen_mongo_update (c : Coll) (self : V) (u : Uid) (p : Pol) (ok : Bool) :
    MgOutcome (update_MongoStorage self (.polv u p ok) (MgW c)) (mongoStep c (.update u p ok)) := by
  unfold update_MongoStorage MgW MgOutcome mongoStep
  cases ok
  · simp [attrM, prepareDocM, updateOneM, raiseM, bindM]
  · cases hd : dictGet u c <;> simp [attrM, prepareDocM, updateOneM, hd, pairM, cNone, MgW]

theorem gen_mongo_delete (c : Coll) (self : V) (u : Uid) :
    MgOutcome (delete_MongoStorage self (.py (.str u)) (MgW c)) (mongoStep c (.delete u)) := by
  unfold delete_MongoStorage MgW MgOutcome mongoStep
  simp [deleteOneM, pairM, cNone, MgW]

theorem gen_mongo_get (c : Coll) (self : V) (u : Uid) :
    MgOutcome (get_MongoStorage self (.py (.str u)) (MgW c)) (mongoStep c (.get u)) := by
  unfold get_MongoStorage MgW MgOutcome mongoStep
  cases hd : dictGet u c <;> simp [findOneM, hd, pairM, cNone, MgW, truth, truthy, fromDocM, bindM]

/-! ### the paged listing: the limit / offset check, the special case of limit 0, `find(limit, skip, sort by _id)`, the generator -/

def feedBodyM : V → List V → (List V → M) → (List V → M) → M := fun l1_doc s1 k1 b1 =>
      (bindM (appendM (pure (stGet s1 0)) (fromDocM (pure l1_doc))) fun v___y =>
      (k1 [v___y]))

theorem feedM_loop (docs : St) : ∀ (acc : List V) (k : List V → M),
    loopS (docs.map fun (x : Uid × Pol) => V.mdoc x.1 x.2) feedBodyM [.seq acc] k =
      k [.seq (acc ++ docs.map fun (x : Uid × Pol) => V.polv x.1 x.2 true)] := by
  induction docs with
  | nil => intro acc k; simp [loopS]
  | cons x tail ih =>
    intro acc k
    simp only [List.map_cons, loopS, feedBodyM, stGet, List.getD_cons_zero, pure_ok, fromDocM, bindM_ok, appendM, ih,
      List.append_assoc, List.singleton_append]

theorem gen_mongo_feed (docs : St) :
    feed_policies_MongoStorage (.mcursor docs) = .ok (.seq (docs.map fun (x : Uid × Pol) => V.polv x.1 x.2 true)) := by
  have e : feed_policies_MongoStorage (.mcursor docs) =
      loopS (docs.map fun (x : Uid × Pol) => V.mdoc x.1 x.2) feedBodyM [.seq []] (fun r1 => pure (stGet r1 0)) := rfl
  rw [e, feedM_loop]
  simp [stGet]

theorem lt_intM (a b : Int) : cmpLt (.ok (.py (.int a))) (cInt b) = ofBool (Decidable.decide (a < b)) := by
  simp only [cmpLt, cmp2, bindM, cInt, pyLt, pyCmp, asNum, numEq, numLt, liftR, Except.map, ofBool]
  by_cases h1 : a = b
  · subst h1; simp
  · by_cases h2 : a < b
    · simp [h1, h2]
    · simp [h1, h2]

theorem gen_mongo_check (c : Coll) (l o : Int) :
    check_limit_and_offset_StorageM (.py (.int l)) (.py (.int o)) (MgW c) =
      if checkLimitOffset l o then .ok (.mworld c (some .valueError)) else .ok (.seq [.py .none, MgW c]) := by
  unfold check_limit_and_offset_StorageM MgW checkLimitOffset
  simp only [pure_ok, lt_intM, ofBool_eq, iteM_ok, truth_bool, raiseMongoM, bindM_ok, pairM, cNone]
  by_cases h1 : l < 0 <;> by_cases h2 : o < 0 <;> simp [h1, h2]

theorem gen_mongo_get_all (c : Coll) (self : V) (l o : Int) :
    MgOutcome (get_all_MongoStorage self (.py (.int l)) (.py (.int o)) (MgW c)) (mongoStep c (.getAll l o)) := by
  unfold get_all_MongoStorage MgOutcome mongoStep mongoGetAll
  simp only [pure_ok, bindM_ok, gen_mongo_check]
  by_cases hc : checkLimitOffset l o = true
  · simp [hc, callProcM]
  · have hc' : checkLimitOffset l o = false := by simpa using hc
    have hl : 0 ≤ l := by simp [checkLimitOffset] at hc'; omega
    have ho : 0 ≤ o := by simp [checkLimitOffset] at hc'; omega
    have hz : cmpEq (.ok (V.py (.int l))) (cInt 0) = ofBool (l == 0) := by
      simp [cmpEq, cmp2, cInt, pyEq, asNum, numEq, ofBool]
    by_cases h0 : l = 0
    · subst h0
      simp [hc', callProcM, hz, MgW, pairM, cEmptyList, truth, truthy]
    · have h0' : (l == 0) = false := by simpa using h0
      simp [hc', callProcM, hz, h0', MgW, findPageM, hl, ho, gen_mongo_feed, pairM, truth, truthy]

theorem translatedMongo_covers : translatedMongo =
    ["_check_limit_and_offset", "__feed_policies", "add", "get", "update", "delete", "get_all"] := by decide

end Vakt.GenEquiv
