import Gen.Redis
import Gen.Lemmas
import Model.Backends
/-!
# The translated `add` / `get` / `update` / `delete` of `RedisStorage` are the concrete model `redisStep`

`Gen/Redis.lean` is produced from `/repo/vakt/storage/redis.py` on every run, the client calls (`hsetnx`, `hget`, the Lua updater,
`hdel`) being effects on the hash and the serializer part of the world.  For every serializer (also one that fails), every hash and
every argument the translated method leaves the hash `Backends.redisStep` computes and returns / raises what it says: a failing
serializer or an `HSETNX` answering 0 is `PolicyExistsError`, an empty stored value reads as "no such policy", `update` only
overwrites an existing field.  `redisStep` refines the abstract store for a lawful serializer (`redis_refines`).
-/
namespace Vakt.GenEquiv
open Vakt PyVal Vakt.PyPrim Vakt.GenRedis Vakt.Store Vakt.Backends

def RW (sr : Ser) (h : RHash) : V := .rworld sr h Option.none

/-- how a method ends, against `redisStep` (its recorded client calls aside) -/
def ROutcome (m : M) (sr : Ser) (r : RHash × Out × List Call) : Prop :=
  match r.2.1 with
  | .done => m = .ok (.seq [.py .none, RW sr r.1])
  | .pol Option.none => m = .ok (.seq [.py .none, RW sr r.1])
  | .pol (some p) => ∃ u, m = .ok (.seq [.polv u p true, RW sr r.1])
  | .pols _ => False
  | e => m = .ok (.rworld sr r.1 (some e))

theorem eq_zero_one : cmpEq (.ok (V.py (.int 1))) (cInt 0) = ofBool false ∧ cmpEq (.ok (V.py (.int 0))) (cInt 0) = ofBool true := by
  constructor <;> simp [cmpEq, cmp2, cInt, pyEq, asNum, numEq, ofBool]

theorem gen_redis_add (sr : Ser) (h : RHash) (self : V) (u : Uid) (p : Pol) (ok : Bool) :
    ROutcome (add_RedisStorage self (.polv u p ok) (RW sr h)) sr (redisStep sr h (.add u p ok)) := by
  unfold add_RedisStorage RW ROutcome redisStep
  simp only [pure_ok, attrM, bindM_ok, serializeM, hsetnxM]
  cases hs : sr.ser p with
  | none => simp [hs, raiseM, bindM, tryElseM, raiseRedisM]
  | some b =>
    simp only [hs, bindM_ok]
    cases hd : dictGet u h with
    | none => simp [hd, eq_zero_one.1, tryElseM, pairM, cNone, RW, truth, truthy]
    | some x => simp [hd, eq_zero_one.2, tryElseM, raiseRedisM, truth, truthy]

theorem gen_redis_update (sr : Ser) (h : RHash) (self : V) (u : Uid) (p : Pol) (ok : Bool) :
    ROutcome (update_RedisStorage self (.polv u p ok) (RW sr h)) sr (redisStep sr h (.update u p ok)) := by
  unfold update_RedisStorage RW ROutcome redisStep
  simp only [pure_ok, attrM, bindM_ok, serializeM, scriptUpdateM]
  cases hs : sr.ser p with
  | none => simp [hs, raiseM, bindM, tryElseM, raiseRedisM]
  | some b =>
    simp only [hs, bindM_ok]
    cases hd : dictGet u h <;> simp [hd, tryElseM, pairM, cNone, RW]

theorem gen_redis_delete (sr : Ser) (h : RHash) (self : V) (u : Uid) :
    ROutcome (delete_RedisStorage self (.py (.str u)) (RW sr h)) sr (redisStep sr h (.delete u)) := by
  unfold delete_RedisStorage RW ROutcome redisStep
  simp [hdelM, pairM, cNone, RW]

theorem gen_redis_get (sr : Ser) (h : RHash) (self : V) (u : Uid) :
    ROutcome (get_RedisStorage self (.py (.str u)) (RW sr h)) sr (redisStep sr h (.get u)) := by
  unfold get_RedisStorage RW ROutcome redisStep
  simp only [pure_ok, hgetM, bindM_ok]
  cases hd : dictGet u h with
  | none => simp [hd, pairM, cNone, RW, truth, truthy]
  | some b =>
    cases hb : b.isEmpty <;> simp [hd, hb, pairM, cNone, RW, truth, deserializeM, bindM]

theorem translatedRedis_covers : translatedRedis = ["add", "get", "update", "delete"] := by decide

end Vakt.GenEquiv
