import Gen.Redis
import Gen.Lemmas
import Model.Backends
/-!
# The translated `add` / `get` / `update` / `delete` of `RedisStorage` are the concrete model `redisStep`

`Gen/Redis.lean` is produced from `/repo/vakt/storage/redis.py` on every run, the client calls (`hsetnx`, `hget`, the Lua updater,
`hdel`) being effects on the hash and the serializer part of the world.  For every serializer (also one that fails), every hash and
every argument the translated method leaves the hash `Backends.redisStep` computes and returns / raises what it says: a failing
serializer or an `HSETNX` answering 0 is `PolicyExistsError`, an empty stored value reads as "no such policy", `update` only
overwrites an existing field.  `redisStep` refines the abstract store for a lawful serializer (`redis_refines`).
-/
namespace Vakt.GenEquiv
open Vakt PyVal Vakt.PyPrim Vakt.GenRedis Vakt.Store Vakt.Backends

def RW (sr : Ser) (h : RHash) : V := .rworld sr h Option.none

/-- how a method ends, against `redisStep` (its recorded client calls aside) -/
def ROutcome (m : M) (sr : Ser) (r : RHash × Out × List Call) : Prop :=
  match r.2.1 with
  | .done => m = .ok (.seq [.py .none, RW sr r.1])
  | .pol Option.none => m = .ok (.seq [.py .none, RW sr r.1])
  | .pol (some p) => ∃ u, m = .ok (.seq [.polv u p true, RW sr r.1])
  | .pols l => m = .ok (.seq [.seq (l.map fun (x : Uid × Pol) => V.polv [] x.2 true), RW sr r.1])
  | e => m = .ok (.rworld sr r.1 (some e))

theorem lt_int' (a b : Int) : cmpLt (.ok (.py (.int a))) (cInt b) = ofBool (Decidable.decide (a < b)) := by
  simp only [cmpLt, cmp2, bindM, cInt, pyLt, pyCmp, asNum, numEq, numLt, liftR, Except.map, ofBool]
  by_cases h1 : a = b
  · subst h1; simp
  · by_cases h2 : a < b
    · simp [h1, h2]
    · simp [h1, h2]

theorem eq_zero_one : cmpEq (.ok (V.py (.int 1))) (cInt 0) = ofBool false ∧ cmpEq (.ok (V.py (.int 0))) (cInt 0) = ofBool true := by
  constructor <;> simp [cmpEq, cmp2, cInt, pyEq, asNum, numEq, ofBool]

theorem gen_redis_add (sr : Ser) (h : RHash) (self : V) (u : Uid) (p : Pol) (ok : Bool) :
    ROutcome (add_RedisStorage self (.polv u p ok) (RW sr h)) sr (redisStep sr h (.add u p ok)) := by
  unfold add_RedisStorage RW ROutcome redisStep
  simp only [pure_ok, attrM, bindM_ok, serializeM, hsetnxM]
  cases hs : sr.ser p with
  | none => simp [hs, raiseM, bindM, tryElseM, raiseRedisM]
  | some b =>
    simp only [hs, bindM_ok]
    cases hd : dictGet u h with
    | none => simp [hd, eq_zero_one.1, tryElseM, pairM, cNone, RW, truth, truthy]
    | some x => simp [hd, eq_zero_one.2, tryElseM, raiseRedisM, truth, truthy]

theorem gen_redis_update (sr : Ser) (h : RHash) (self : V) (u : Uid) (p : Pol) (ok : Bool) :
    ROutcome (update_RedisStorage self (.polv u p ok) (RW sr h)) sr (redisStep sr h (.update u p ok)) := by
  unfold update_RedisStorage RW ROutcome redisStep
  simp only [pure_ok, attrM, bindM_ok, serializeM, scriptUpdateM]
  cases hs : sr.ser p with
  | none => simp [hs, raiseM, bindM, tryElseM, raiseRedisM]
  | some b =>
    simp only [hs, bindM_ok]
    cases hd : dictGet u h <;> simp [hd, tryElseM, pairM, cNone, RW]

theorem gen_redis_delete (sr : Ser) (h : RHash) (self : V) (u : Uid) :
    ROutcome (delete_RedisStorage self (.py (.str u)) (RW sr h)) sr (redisStep sr h (.delete u)) := by
  unfold delete_RedisStorage RW ROutcome redisStep
  simp [hdelM, pairM, cNone, RW]

theorem gen_redis_get (sr : Ser) (h : RHash) (self : V) (u : Uid) :
    ROutcome (get_RedisStorage self (.py (.str u)) (RW sr h)) sr (redisStep sr h (.get u)) := by
  unfold get_RedisStorage RW ROutcome redisStep
  simp only [pure_ok, hgetM, bindM_ok]
  cases hd : dictGet u h with
  | none => simp [hd, pairM, cNone, RW, truth, truthy]
  | some b =>
    cases hb : b.isEmpty <;> simp [hd, hb, pairM, cNone, RW, truth, deserializeM, bindM]

/-! ### the listings: `hgetall`, `islice`, the private generator `__feed_policies` -/

/-- in a dictionary (no field twice) every pair is found under its key -/
theorem dictGet_of_mem (h : RHash) (hn : (h.map (·.1)).Nodup) : ∀ kv ∈ h, dictGet kv.1 h = some kv.2 := by
  induction h with
  | nil => intro kv hkv; cases hkv
  | cons x rest ih =>
    obtain ⟨k, v⟩ := x
    simp only [List.map_cons, List.nodup_cons] at hn
    intro kv hkv
    simp only [List.mem_cons] at hkv
    rcases hkv with rfl | hmem
    · simp [dictGet]
    · have hne : ¬ k = kv.1 := by
        intro e
        apply hn.1
        rw [e]
        exact List.mem_map_of_mem hmem
      simp only [dictGet, hne, if_false]
      exact ih hn.2 kv hmem

/-- one iteration of `__feed_policies` -/
def feedBody (data w : V) : V → List V → (List V → M) → (List V → M) → M := fun l1_uid s1 k1 b1 =>
      (bindM (appendM (pure (stGet s1 0)) (deserializeM (rhashGetM (pure data) (pure l1_uid)) (pure w))) fun v___y =>
      (k1 [v___y]))

theorem feed_loop (sr : Ser) (h h0 : RHash) (rest : RHash) (hl : ∀ kv ∈ rest, dictGet kv.1 h = some kv.2) :
    ∀ (acc : List V) (k : List V → M),
      loopS (rest.map fun (x : Uid × Bytes) => V.py (.str x.1)) (feedBody (.rhash h) (RW sr h0)) [.seq acc] k =
        k [.seq (acc ++ rest.map fun (x : Uid × Bytes) => V.polv [] (sr.deser x.2) true)] := by
  induction rest with
  | nil => intro acc k; simp [loopS]
  | cons x tail ih =>
    intro acc k
    have hx := hl x (List.mem_cons_self)
    have ht : ∀ kv ∈ tail, dictGet kv.1 h = some kv.2 := fun kv hkv => hl kv (List.mem_cons_of_mem _ hkv)
    have e := ih ht (acc ++ [V.polv [] (sr.deser x.2) true]) k
    simp only [RW] at e
    simp only [List.map_cons, loopS, feedBody, stGet, List.getD_cons_zero, pure_ok, rhashGetM, bindM_ok, hx, deserializeM, RW,
      appendM, e, List.append_assoc, List.singleton_append]

theorem gen_redis_feed (sr : Ser) (h h0 : RHash) (hn : (h.map (·.1)).Nodup) :
    feed_policies_RedisStorage (.rhash h) (RW sr h0) =
      .ok (.seq ((Backends.feed sr h).map fun (x : Uid × Pol) => V.polv [] x.2 true)) := by
  have hl := dictGet_of_mem h hn
  have := feed_loop sr h h0 h hl [] (fun r1 => pure (stGet r1 0))
  have e : feed_policies_RedisStorage (.rhash h) (RW sr h0) =
      loopS (h.map fun (x : Uid × Bytes) => V.py (.str x.1)) (feedBody (.rhash h) (RW sr h0)) [.seq []]
        (fun r1 => pure (stGet r1 0)) := rfl
  rw [e, this]
  simp [stGet, Backends.feed, List.map_map, Function.comp_def]

theorem islice_nodup (h : RHash) (a b : Nat) (hn : (h.map (·.1)).Nodup) : ((islice h a b).map (·.1)).Nodup := by
  unfold islice
  rw [List.map_take, List.map_drop]
  exact (hn.sublist (List.drop_sublist _ _)).sublist (List.take_sublist _ _)

theorem gen_redis_check (sr : Ser) (h : RHash) (l o : Int) :
    check_limit_and_offset_StorageR (.py (.int l)) (.py (.int o)) (RW sr h) =
      if checkLimitOffset l o then .ok (.rworld sr h (some .valueError)) else .ok (.seq [.py .none, RW sr h]) := by
  unfold check_limit_and_offset_StorageR RW checkLimitOffset
  simp only [pure_ok, lt_int', ofBool_eq, iteM_ok, truth_bool, raiseRedisM, bindM_ok, pairM, cNone]
  by_cases h1 : l < 0 <;> by_cases h2 : o < 0 <;> simp [h1, h2]

theorem gen_redis_get_all (sr : Ser) (h : RHash) (self : V) (l o : Int) (hn : (h.map (·.1)).Nodup) :
    ROutcome (get_all_RedisStorage self (.py (.int l)) (.py (.int o)) (RW sr h)) sr (redisStep sr h (.getAll l o)) := by
  unfold get_all_RedisStorage ROutcome redisStep redisGetAll
  simp only [pure_ok, bindM_ok, gen_redis_check]
  by_cases hc : checkLimitOffset l o = true
  · simp [hc, callProcM]
  · have hc' : checkLimitOffset l o = false := by simpa using hc
    have hl : 0 ≤ l := by simp [checkLimitOffset] at hc'; omega
    have ho : 0 ≤ o := by simp [checkLimitOffset] at hc'; omega
    have hsum : 0 ≤ l + o := by omega
    have hf := gen_redis_feed sr (islice h o.toNat (l + o).toNat) h (islice_nodup h _ _ hn)
    simp only [RW] at hf
    simp [hc', callProcM, RW, hgetallM, rhashItemsM, addM, isliceM, ho, hsum, callDictM, hf, pairM]

theorem gen_redis_find (sr : Ser) (h : RHash) (self q k : V) (hn : (h.map (·.1)).Nodup) :
    find_for_inquiry_RedisStorage self q k (RW sr h) =
      .ok (.seq [.seq ((Backends.feed sr h).map fun (x : Uid × Pol) => V.polv [] x.2 true), RW sr h]) := by
  have hf := gen_redis_feed sr h h hn
  simp only [RW] at hf
  cases h with
  | nil => simp [find_for_inquiry_RedisStorage, RW, hgetallM, pairM, cEmptyList, truth, Backends.feed]
  | cons x rest => simp [find_for_inquiry_RedisStorage, RW, hgetallM, pairM, truth, hf]

theorem translatedRedis_covers : translatedRedis =
    ["_check_limit_and_offset", "__feed_policies", "add", "get", "update", "delete", "get_all", "find_for_inquiry"] := by decide

end Vakt.GenEquiv
