import Gen.Guard
import Gen.Lemmas
import Model.Guard
/-!
# The translated decision procedure of `Guard` is the model's

`Gen/Guard.lean` is produced from `/repo/vakt/guard.py` on every run by `harness/pytolean.py`:
`check_context_restriction`, `check_policies_allow` and `is_allowed_check` as they are written in the source.

* `gen_check_context_restriction` — the context loop is the model's `ctxOk`;
* `gen_match` — the four-way `and` inside the comprehension is `guardMatch` (for the checker kind of the guard);
* `gen_check_policies_allow` — filtering, the empty case, the veto loop and the final allow are `decideCore`;
* `gen_is_allowed_check` — together with the storage call, the `None` guard and the catch-all handler: `isAllowed`.

So the theorems of `Props/C01.lean` and `Props/C02.lean` about `decide` / `isAllowed` are theorems about these three
methods as written today.
-/
namespace Vakt.GenEquiv
open Vakt PyVal Vakt.PyPrim Vakt.GenGuard

/-! ### `check_context_restriction` -/

def ctxPair (kv : List Char × AttrVal) : V :=
  V.seq [.py (.str kv.1), (match kv.2 with | .rule r => V.rule r | .junk => V.other)]

/-- the body of the loop of `check_context_restriction` -/
def ctxBody (q : Inquiry) : V → M → M := fun l1_pair k1 =>
      (bindM (seqItemM (pure l1_pair) 0) fun l1_key =>
      (bindM (seqItemM (pure l1_pair) 1) fun l1_rule =>
      (trySubscriptM (attrM (pure (V.inq (some q))) "context") (pure l1_key)
      cFalse
      (fun v_ctx_value => (iteM (pyNot (methSatisfied (pure l1_rule) (pure v_ctx_value) (pure (V.inq (some q)))))
      cFalse
      k1)))))

/-- one iteration: the key is looked up in the inquiry's context, the rule evaluated on the value found -/
theorem ctxBody_step (q : Inquiry) (k : List Char) (a : AttrVal) (cont : M) :
    ctxBody q (ctxPair (k, a)) cont =
      (match q.context with
       | .dict d =>
         (match lookup k d with
          | Option.none => cFalse
          | some v =>
            (match a with
             | .junk => raiseM
             | .rule r =>
               (match r.eval v (some q) with
                | .error e => .error e
                | .ok false => cFalse
                | .ok true => cont)))
       | _ => raiseM) := by
  simp only [ctxBody, ctxPair, seqItemM, pure_ok, bindM_ok, List.getElem?_cons_zero, List.getElem?_cons_succ, attrM,
    trySubscriptM]
  cases hq : q.context <;> try rfl
  rename_i d
  simp only
  cases hl : lookup k d with
  | none => rfl
  | some v =>
    simp only
    cases a with
    | junk => rfl
    | rule r =>
      simp only [methSatisfied, bindM_ok]
      cases he : Rule.eval r v (some q) with
      | error e => rfl
      | ok b => cases b <;> rfl

theorem loop_ctx (q : Inquiry) (ctx : List (List Char × AttrVal)) :
    toR (loopM (ctx.map ctxPair) (ctxBody q) cTrue) = ctxLoop q ctx := by
  induction ctx with
  | nil => rfl
  | cons kv rest ih =>
    obtain ⟨k, a⟩ := kv
    simp only [List.map_cons, loopM, ctxBody_step, ctxLoop]
    cases hq : q.context <;> try rfl
    rename_i d
    simp only
    cases hl : lookup k d with
    | none => rfl
    | some v =>
      simp only
      cases a with
      | junk => rfl
      | rule r =>
        simp only
        cases he : Rule.eval r v (some q) with
        | error e => rfl
        | ok b =>
          cases b
          · rfl
          · simpa only [hq] using ih

theorem gen_check_context_restriction (p : Policy) (q : Inquiry) :
    toR (check_context_restriction_Guard (.policy p) (.inq (some q))) = ctxOk p q := by
  simp only [check_context_restriction_Guard, pure_ok, contextItemsM, bindM_ok, pyFor, items, ctxOk]
  exact loop_ctx q p.context

/-! ### the four-way `and` of the comprehension -/

theorem toR_pyAnd_liftR (r : R) (f : Unit → M) : toR (pyAnd (liftR r) f) = andThen r (fun _ => toR (f ())) := by
  cases r with
  | error e => rfl
  | ok b => cases b <;> rfl

theorem methFits_eval (k : CheckerKind) (p : Policy) (q : Inquiry) (name : String) (fld : Field) (w : PyVal)
    (hf : fieldOfName name.toList = some fld) :
    methFits (.ok (.checker k)) (.ok (.policy p)) (cStr name) (.ok (.py w)) (.ok (.inq (some q))) = liftR (fits k p fld w q) := by
  simp only [methFits, bindM_ok, cStr, hf]

/-- the condition of the comprehension for one policy -/
def matchCond (k : CheckerKind) (q : Inquiry) : V → M := fun c1_p =>
  (pyAnd (methFits (pure (V.checker k)) (pure c1_p) (cStr "actions") (attrM (pure (V.inq (some q))) "action") (pure (V.inq (some q)))) (fun _ => (pyAnd (methFits (pure (V.checker k)) (pure c1_p) (cStr "subjects") (attrM (pure (V.inq (some q))) "subject") (pure (V.inq (some q)))) (fun _ => (pyAnd (methFits (pure (V.checker k)) (pure c1_p) (cStr "resources") (attrM (pure (V.inq (some q))) "resource") (pure (V.inq (some q)))) (fun _ => (bindM (pure c1_p) fun a2 => (bindM (pure (V.inq (some q))) fun a3 => (check_context_restriction_Guard a2 a3)))))))))

/-- **the condition is the model's `guardMatch`** -/
theorem gen_match (k : CheckerKind) (q : Inquiry) (p : Policy) :
    toR (matchCond k q (.policy p)) = guardMatch k q p := by
  have ha : attrM (.ok (V.inq (some q))) "action" = .ok (.py q.action) := rfl
  have hs : attrM (.ok (V.inq (some q))) "subject" = .ok (.py q.subject) := rfl
  have hr : attrM (.ok (V.inq (some q))) "resource" = .ok (.py q.resource) := rfl
  simp only [matchCond, pure_ok, ha, hs, hr,
    methFits_eval k p q "actions" .actions _ rfl, methFits_eval k p q "subjects" .subjects _ rfl,
    methFits_eval k p q "resources" .resources _ rfl, toR_pyAnd_liftR, bindM_ok, gen_check_context_restriction,
    guardMatch, matchP]

/-! ### the comprehension, the empty case, the veto loop -/

theorem filterLoop_eq (m : Policy → R) (cond : V → M) (h : ∀ p, toR (cond (.policy p)) = m p) (ps : List Policy) :
    filterLoop (ps.map V.policy) cond = (filterM m ps).map (fun fs => fs.map V.policy) := by
  induction ps with
  | nil => rfl
  | cons p rest ih =>
    simp only [List.map_cons, filterLoop, filterM, ih]
    have hp := h p
    cases hc : cond (.policy p) with
    | error e =>
      rw [hc] at hp
      have hm : m p = .error e := hp.symm
      rw [hm]
      rfl
    | ok v =>
      rw [hc] at hp
      have hm : m p = .ok (truth v) := hp.symm
      rw [hm]
      simp only
      cases filterM m rest with
      | error e => rfl
      | ok fs => cases truth v <;> rfl

/-- what `check_policies_allow` does with the filtered list -/
def afterFilter (fs : V) : M :=
      (iteM (cmpEq (callLen (pure fs)) (cInt (0)))
      cFalse
      (pyFor (pure fs) (fun l4_p k4 =>
      (iteM (pyNot (methAllowAccess (pure l4_p)))
      cFalse
      k4))
      cTrue))

def vetoBody : V → M → M := fun l4_p k4 => (iteM (pyNot (methAllowAccess (pure l4_p))) cFalse k4)

theorem vetoBody_step (p : Policy) (k : M) : vetoBody (.policy p) k = if p.allowAccess then k else cFalse := by
  simp only [vetoBody, pure_ok, methAllowAccess, bindM_ok, ofBool_eq, pyNot_ok, truth_bool, iteM_ok]
  cases p.allowAccess <;> rfl

theorem veto_loop (fs : List Policy) :
    toR (loopM (fs.map V.policy) vetoBody cTrue) =
      .ok (match fs.find? (fun p => !p.allowAccess) with | some _ => false | Option.none => true) := by
  induction fs with
  | nil => rfl
  | cons p rest ih =>
    simp only [List.map_cons, loopM, vetoBody_step, List.find?_cons]
    cases p.allowAccess
    · rfl
    · simpa using ih

theorem afterFilter_eq (fs : List Policy) :
    toR (afterFilter (.seq (fs.map V.policy))) = .ok (decideFiltered fs).1 := by
  cases fs with
  | nil => rfl
  | cons p rest =>
    have hlen : cmpEq (callLen (.ok (V.seq ((p :: rest).map V.policy)))) (cInt (0)) = .ok (.py (.bool false)) := by
      simp only [callLen, bindM_ok, cInt, cmpEq, cmp2, liftR_ok, List.length_map, List.length_cons]
      have : pyEq (.int ((rest.length : Int) + 1)) (.int 0) = false := by
        have h1 : ¬ ((rest.length : Int) + 1 = 0) := by omega
        simp [pyEq, asNum, numEq, h1]
      simpa using this
    show toR (iteM (cmpEq (callLen (.ok (V.seq ((p :: rest).map V.policy)))) (cInt (0))) cFalse
      (pyFor (.ok (V.seq ((p :: rest).map V.policy))) vetoBody cTrue)) = _
    rw [hlen]
    simp only [iteM_ok, truth_bool, Bool.false_eq_true, ↓reduceIte, pyFor, bindM_ok, items]
    rw [veto_loop (p :: rest)]
    simp only [decideFiltered, List.isEmpty_cons, Bool.false_eq_true, ↓reduceIte]
    cases (p :: rest).find? (fun p => !p.allowAccess) <;> rfl

/-- **`check_policies_allow` as written in the source is the model's `decideCore`** (answer component) -/
theorem gen_check_policies_allow (k : CheckerKind) (q : Inquiry) (ps : List Policy) :
    toR (check_policies_allow_Guard (.checker k) (.inq (some q)) (.seq (ps.map V.policy))) =
      (decideCore (guardMatch k q) ps).map (·.1) := by
  have hf := filterLoop_eq (guardMatch k q) (matchCond k q) (gen_match k q) ps
  show toR (bindM (filterCompM (pure (V.seq (ps.map V.policy))) (matchCond k q)) afterFilter) = _
  simp only [pure_ok, filterCompM, bindM_ok, items, hf, decideCore]
  cases filterM (guardMatch k q) ps with
  | error e => rfl
  | ok fs => exact afterFilter_eq fs

/-- … and over an iterable that fails before yielding item `n` -/
theorem gen_check_policies_allow_lazy (k : CheckerKind) (q : Inquiry) (ps : List Policy) (n : Nat) :
    toR (check_policies_allow_Guard (.checker k) (.inq (some q)) (.lazySeq (ps.map V.policy) n)) =
      (decideAns (guardMatch k q) (.items ps (some n))).map (·.1) := by
  show toR (bindM (filterCompM (pure (V.lazySeq (ps.map V.policy) n)) (matchCond k q)) afterFilter) = _
  simp only [pure_ok, filterCompM, bindM_ok, List.length_map, decideAns]
  by_cases hn : n ≤ ps.length
  · simp only [hn, ↓reduceIte]
    have hf := filterLoop_eq (guardMatch k q) (matchCond k q) (gen_match k q) (ps.take n)
    rw [← List.map_take, hf]
    cases filterM (guardMatch k q) (ps.take n) <;> rfl
  · simp only [hn, ↓reduceIte]
    have hf := filterLoop_eq (guardMatch k q) (matchCond k q) (gen_match k q) ps
    rw [hf, decideCore]
    cases filterM (guardMatch k q) ps with
    | error e => rfl
    | ok fs => exact afterFilter_eq fs

/-! ### `is_allowed_check` -/

/-- **`is_allowed_check` as written in the source — storage call, `None` guard, evaluation, catch-all handler — is the
model's `isAllowed`**: for every checker kind, inquiry and storage answer (raises / `None` / policies / an iterable that
fails part-way) -/
theorem gen_is_allowed_check (k : CheckerKind) (q : Inquiry) (ans : StoreAns) :
    toR (is_allowed_check_Guard (.checker k) (.storage ans) (.inq (some q))) = .ok (isAllowed (guardMatch k q) ans) := by
  cases ans with
  | raises => rfl
  | nothing => rfl
  | items ps fa =>
    cases fa with
    | none =>
      have h := gen_check_policies_allow k q ps
      simp only [is_allowed_check_Guard, pure_ok, methFind, bindM_ok, isNoneM, ofBool_eq, iteM_ok, truth_bool,
        Bool.false_eq_true, ↓reduceIte, isAllowed, decideAns]
      cases hc : check_policies_allow_Guard (.checker k) (.inq (some q)) (.seq (ps.map V.policy)) with
      | error e =>
        rw [hc] at h
        cases hd : decideCore (guardMatch k q) ps with
        | error e' => rfl
        | ok r => rw [hd] at h; cases h
      | ok v =>
        rw [hc] at h
        cases hd : decideCore (guardMatch k q) ps with
        | error e' => rw [hd] at h; cases h
        | ok r =>
          rw [hd] at h
          simp only [toR_ok, Except.map] at h
          simp only [catchAllM, bindM_ok, pure_ok, toR_ok]
          exact h
    | some n =>
      have h := gen_check_policies_allow_lazy k q ps n
      simp only [is_allowed_check_Guard, pure_ok, methFind, bindM_ok, isNoneM, ofBool_eq, iteM_ok, truth_bool,
        Bool.false_eq_true, ↓reduceIte, isAllowed]
      cases hc : check_policies_allow_Guard (.checker k) (.inq (some q)) (.lazySeq (ps.map V.policy) n) with
      | error e =>
        rw [hc] at h
        cases hd : decideAns (guardMatch k q) (.items ps (some n)) with
        | error e' => rfl
        | ok r => rw [hd] at h; cases h
      | ok v =>
        rw [hc] at h
        cases hd : decideAns (guardMatch k q) (.items ps (some n)) with
        | error e' => rw [hd] at h; cases h
        | ok r =>
          rw [hd] at h
          simp only [toR_ok, Except.map] at h
          simp only [catchAllM, bindM_ok, pure_ok, toR_ok]
          exact h

/-- what was translated in this run is what the theorems above cover -/
theorem translatedGuard_covers :
    translatedGuard = ["check_context_restriction", "check_policies_allow", "is_allowed_check"] := by decide

end Vakt.GenEquiv
