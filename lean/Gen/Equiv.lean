import Gen.Rules
import Gen.Lemmas
import Model.Rules
import Model.Checker
/-!
# The translated rule bodies are the model's rules

`Gen/Rules.lean` is produced from `/repo/vakt/rules/*.py` on every run by `harness/pytolean.py`.  For every translated
rule this file proves that the generated definition, observed through truthiness (`toR`), is `Rule.eval` of the
hand-written model for that rule — for every argument, every offered value and every inquiry.  So the theorems of
`Props/C05.lean` about `Rule.eval` are theorems about the rule bodies as they are written in the source today; a change
to a body changes the generated definition, and its theorem here no longer checks.
-/
namespace Vakt.GenEquiv
open Vakt PyVal Vakt.PyPrim Vakt.GenRules

/-! ### comparison rules -/

theorem gen_Eq (v w : PyVal) (q : V) : toR (sat_Eq (.py v) (.py w) q) = Rule.eval (.eq v) w Option.none := by
  cases v <;> rfl

theorem gen_NotEq (v w : PyVal) (q : V) : toR (sat_NotEq (.py v) (.py w) q) = Rule.eval (.notEq v) w Option.none := by
  cases v <;> rfl

theorem gen_Greater (v w : PyVal) (q : V) : toR (sat_Greater (.py v) (.py w) q) = Rule.eval (.greater v) w Option.none := by
  simp only [sat_Greater, cmpGt, cmp2, pure_ok, bindM_ok, toR_liftR, Rule.eval]

theorem gen_Less (v w : PyVal) (q : V) : toR (sat_Less (.py v) (.py w) q) = Rule.eval (.less v) w Option.none := by
  simp only [sat_Less, cmpLt, cmp2, pure_ok, bindM_ok, toR_liftR, Rule.eval]

theorem gen_GreaterOrEqual (v w : PyVal) (q : V) :
    toR (sat_GreaterOrEqual (.py v) (.py w) q) = Rule.eval (.greaterOrEqual v) w Option.none := by
  simp only [sat_GreaterOrEqual, cmpGe, cmp2, pure_ok, bindM_ok, toR_liftR, Rule.eval]

theorem gen_LessOrEqual (v w : PyVal) (q : V) :
    toR (sat_LessOrEqual (.py v) (.py w) q) = Rule.eval (.lessOrEqual v) w Option.none := by
  simp only [sat_LessOrEqual, cmpLe, cmp2, pure_ok, bindM_ok, toR_liftR, Rule.eval]

/-! ### membership rules (`self.data` is the set built from the constructor's arguments) -/

theorem gen_In (d : List PyVal) (w : PyVal) (q : V) : toR (sat_In (.set d) (.py w) q) = Rule.eval (.isIn d) w Option.none := by
  simp only [sat_In, cmpIn, pure_ok, bindM_ok, toR_liftR, Rule.eval]

theorem gen_NotIn (d : List PyVal) (w : PyVal) (q : V) :
    toR (sat_NotIn (.set d) (.py w) q) = Rule.eval (.notIn d) w Option.none := by
  simp only [sat_NotIn, cmpIn, pure_ok, bindM_ok, toR_notM_liftR, Rule.eval]

theorem not_list (w : PyVal) (h : isList w = false) (d : List PyVal) :
    Rule.eval (.allIn d) w Option.none = .error .raised ∧ Rule.eval (.allNotIn d) w Option.none = .error .raised ∧
    Rule.eval (.anyIn d) w Option.none = .error .raised ∧ Rule.eval (.anyNotIn d) w Option.none = .error .raised := by
  cases w <;> simp_all [isList, Rule.eval]

theorem gen_AllIn (d : List PyVal) (w : PyVal) (q : V) :
    toR (sat_AllIn (.set d) (.py w) q) = Rule.eval (.allIn d) w Option.none := by
  by_cases hl : isList w = true
  · cases w <;> simp [isList] at hl
    rename_i xs
    simp only [sat_AllIn, isinstanceM, pure_ok, bindM_ok, ofBool_eq, pyNot_ok, truth_bool, iteM_ok, isList, Bool.not_true,
      Bool.false_eq_true, ↓reduceIte, callSet, methIssubset, Rule.eval]
    cases toSet xs <;> rfl
  · have hl' : isList w = false := by simpa using hl
    rw [(not_list w hl' d).1]
    cases w <;> simp_all [sat_AllIn, isinstanceM, isList, raiseM]

theorem gen_AllNotIn (d : List PyVal) (w : PyVal) (q : V) :
    toR (sat_AllNotIn (.set d) (.py w) q) = Rule.eval (.allNotIn d) w Option.none := by
  by_cases hl : isList w = true
  · cases w <;> simp [isList] at hl
    rename_i xs
    simp only [sat_AllNotIn, isinstanceM, pure_ok, bindM_ok, ofBool_eq, pyNot_ok, truth_bool, iteM_ok, isList, Bool.not_true,
      Bool.false_eq_true, ↓reduceIte, callSet, methIssubset, Rule.eval]
    cases toSet xs <;> rfl
  · have hl' : isList w = false := by simpa using hl
    rw [(not_list w hl' d).2.1]
    cases w <;> simp_all [sat_AllNotIn, isinstanceM, isList, raiseM]

theorem filter_nonempty (s : List PyVal) (p : PyVal → Bool) : (!(s.filter p).isEmpty) = s.any p := by
  induction s with
  | nil => rfl
  | cons a rest ih => by_cases ha : p a = true <;> simp_all [List.filter]

theorem gen_AnyNotIn (d : List PyVal) (w : PyVal) (q : V) :
    toR (sat_AnyNotIn (.set d) (.py w) q) = Rule.eval (.anyNotIn d) w Option.none := by
  by_cases hl : isList w = true
  · cases w <;> simp [isList] at hl
    rename_i xs
    simp only [sat_AnyNotIn, isinstanceM, pure_ok, bindM_ok, ofBool_eq, pyNot_ok, truth_bool, iteM_ok, isList, Bool.not_true,
      Bool.false_eq_true, ↓reduceIte, callSet, methDifference, Rule.eval]
    cases toSet xs with
    | error e => rfl
    | ok s =>
      simp only [Except.map, bindM_ok, members, callBool_ok, toR_ok, truth_bool, truth_set, filter_nonempty]
  · have hl' : isList w = false := by simpa using hl
    rw [(not_list w hl' d).2.2.2]
    cases w <;> simp_all [sat_AnyNotIn, isinstanceM, isList, raiseM]

theorem gen_AnyIn (d : List PyVal) (w : PyVal) (q : V) :
    toR (sat_AnyIn (.set d) (.py w) q) = Rule.eval (.anyIn d) w Option.none := by
  by_cases hl : isList w = true
  · cases w <;> simp [isList] at hl
    rename_i xs
    simp only [sat_AnyIn, isinstanceM, pure_ok, bindM_ok, ofBool_eq, pyNot_ok, truth_bool, iteM_ok, isList, Bool.not_true,
      Bool.false_eq_true, ↓reduceIte, callSet, methIntersection, Rule.eval]
    cases toSet xs with
    | error e => rfl
    | ok s =>
      simp only [Except.map, bindM_ok, members, callBool_ok, toR_ok, truth_bool, truth_set, filter_nonempty]
  · have hl' : isList w = false := by simpa using hl
    rw [(not_list w hl' d).2.2.1]
    cases w <;> simp_all [sat_AnyIn, isinstanceM, isList, raiseM]

/-! ### boolean rules -/

theorem gen_Truthy (w : PyVal) (q : V) : toR (sat_Truthy (.py w) q) = Rule.eval .truthy w Option.none := by
  simp only [sat_Truthy, callCallable, pure_ok, bindM_ok, cFalse_eq, iteM_ok, truth_bool, Bool.false_eq_true, ↓reduceIte,
    callBool_ok, cmpEq, cmp2, cTrue_eq, liftR_ok, toR_ok, Rule.eval]
  have ht : truth (V.py w) = PyVal.truthy w := rfl
  rw [ht]
  cases PyVal.truthy w <;> decide

theorem gen_Falsy (w : PyVal) (q : V) : toR (sat_Falsy (.py w) q) = Rule.eval .falsy w Option.none := by
  simp only [sat_Falsy, callCallable, pure_ok, bindM_ok, cFalse_eq, iteM_ok, truth_bool, Bool.false_eq_true, ↓reduceIte,
    callBool_ok, cmpEq, cmp2, liftR_ok, toR_ok, Rule.eval]
  have ht : truth (V.py w) = PyVal.truthy w := rfl
  rw [ht]
  cases PyVal.truthy w <;> decide

theorem gen_Any (w q : V) : toR (sat_Any w q) = Rule.eval .any .none Option.none := rfl
theorem gen_Neither (w q : V) : toR (sat_Neither w q) = Rule.eval .neither .none Option.none := rfl

/-! ### string rules (`ci` is the case-insensitivity flag, `val` the string given to the constructor) -/

theorem not_str (w : PyVal) (h : isStr w = false) (v : List Char) (ci : Bool) :
    Rule.eval (.strEqual v ci) w Option.none = .ok false ∧ Rule.eval (.startsWith v ci) w Option.none = .ok false ∧
    Rule.eval (.endsWith v ci) w Option.none = .ok false ∧ Rule.eval (.contains v ci) w Option.none = .ok false := by
  cases w <;> simp_all [isStr, Rule.eval]

theorem gen_Equal (v : List Char) (ci : Bool) (w : PyVal) (q : V) :
    toR (sat_Equal (.py (.bool ci)) (.py (.str v)) (.py w) q) = Rule.eval (.strEqual v ci) w Option.none := by
  by_cases hs : isStr w = true
  · cases w <;> simp [isStr] at hs
    cases ci <;> simp [sat_Equal, isinstanceM, isStr, methLower, cmpEq, cmp2, pyEq, Rule.eval, Rule.fold]
  · have hs' : isStr w = false := by simpa using hs
    rw [(not_str w hs' v ci).1]
    cases w <;> simp_all [sat_Equal, isinstanceM, isStr]

theorem gen_StartsWith (v : List Char) (ci : Bool) (w : PyVal) (q : V) :
    toR (sat_StartsWith (.py (.bool ci)) (.py (.str v)) (.py w) q) = Rule.eval (.startsWith v ci) w Option.none := by
  by_cases hs : isStr w = true
  · cases w <;> simp [isStr] at hs
    cases ci <;> simp [sat_StartsWith, isinstanceM, isStr, methLower, methStartswith, str2, Rule.eval, Rule.fold]
  · have hs' : isStr w = false := by simpa using hs
    rw [(not_str w hs' v ci).2.1]
    cases w <;> simp_all [sat_StartsWith, isinstanceM, isStr]

theorem gen_EndsWith (v : List Char) (ci : Bool) (w : PyVal) (q : V) :
    toR (sat_EndsWith (.py (.bool ci)) (.py (.str v)) (.py w) q) = Rule.eval (.endsWith v ci) w Option.none := by
  by_cases hs : isStr w = true
  · cases w <;> simp [isStr] at hs
    cases ci <;> simp [sat_EndsWith, isinstanceM, isStr, methLower, methEndswith, str2, Rule.eval, Rule.fold]
  · have hs' : isStr w = false := by simpa using hs
    rw [(not_str w hs' v ci).2.2.1]
    cases w <;> simp_all [sat_EndsWith, isinstanceM, isStr]

theorem gen_Contains (v : List Char) (ci : Bool) (w : PyVal) (q : V) :
    toR (sat_Contains (.py (.bool ci)) (.py (.str v)) (.py w) q) = Rule.eval (.contains v ci) w Option.none := by
  by_cases hs : isStr w = true
  · cases w <;> simp [isStr] at hs
    cases ci <;> simp [sat_Contains, isinstanceM, isStr, methLower, cmpIn, Rule.eval, Rule.fold]
  · have hs' : isStr w = false := by simpa using hs
    rw [(not_str w hs' v ci).2.2.2]
    cases w <;> simp_all [sat_Contains, isinstanceM, isStr]

/-! ### composition rules (`self.rules` is the tuple of rule objects, `self.rule` the negated rule) -/

theorem methSatisfied_ok (r : Rule) (w : PyVal) (q : Option Inquiry) :
    methSatisfied (.ok (.rule r)) (.ok (.py w)) (.ok (.inq q)) = liftR (Rule.eval r w q) := rfl

theorem gen_Not (r : Rule) (w : PyVal) (q : Option Inquiry) :
    toR (sat_Not (.rule r) (.py w) (.inq q)) = Rule.eval (.not r) w q := by
  simp only [sat_Not, pure_ok, methSatisfied_ok, toR_notM_liftR, Rule.eval]

/-- the comprehension of `And` over the rule objects is the model's `evalAll` -/
theorem compM_rules (rs : List Rule) (w : PyVal) (q : Option Inquiry) :
    compM (rs.map V.rule) (fun x => methSatisfied (pure x) (pure (.py w)) (pure (.inq q))) =
      (Rule.evalAll rs w q).map (fun bs => bs.map fun b => V.py (.bool b)) := by
  induction rs with
  | nil => rfl
  | cons r rest ih =>
    simp only [List.map_cons, compM, pure_ok, methSatisfied_ok, Rule.evalAll]
    cases Rule.eval r w q with
    | error e => rfl
    | ok b =>
      simp only [liftR_ok]
      rw [show (fun x => methSatisfied (Except.ok x) (Except.ok (V.py w)) (Except.ok (V.inq q))) =
            (fun x => methSatisfied (pure x) (pure (V.py w)) (pure (V.inq q))) from rfl, ih]
      cases Rule.evalAll rest w q <;> rfl

theorem all_truth_bools (bs : List Bool) : (bs.map fun b => V.py (.bool b)).all truth = bs.all id := by
  induction bs with
  | nil => rfl
  | cons b rest ih => simp [List.all_cons, ih]

theorem gen_And (rs : List Rule) (w : PyVal) (q : Option Inquiry) :
    toR (sat_And (.seq (rs.map V.rule)) (.py w) (.inq q)) = Rule.eval (.and rs) w q := by
  simp only [sat_And, pure_ok, listCompM, bindM_ok, items, Rule.eval]
  have h := compM_rules rs w q
  simp only [pure_ok] at h
  rw [h]
  cases Rule.evalAll rs w q with
  | error e => rfl
  | ok bs =>
    simp only [Except.map, bindM_ok, callLen, cInt, pyAnd, cmpGt, cmp2, callAll, items, ofBool_eq]
    cases bs with
    | nil => rfl
    | cons b rest =>
      have hpos : pyGt (.int ((b :: rest).map fun b => V.py (.bool b)).length) (.int 0) = .ok true := by
        simp only [List.length_map, List.length_cons]
        simp [pyGt, pyCmp, asNum, numEq, numLt, Except.map]
        have h1 : ¬ ((rest.length : Int) + 1 = 0) := by omega
        have h2 : ¬ ((rest.length : Int) + 1 < 0) := by omega
        simp [h1, h2]
      simp only [hpos, liftR_ok, bindM_ok, truth_bool, ↓reduceIte, toR_ok, all_truth_bools, pyAnd]
      simp

/-- the loop of `Or` over the rule objects is the model's `evalAny` -/
theorem loopM_or (rs : List Rule) (w : PyVal) (q : Option Inquiry) :
    toR (loopM (rs.map V.rule) (fun x k => iteM (methSatisfied (pure x) (pure (.py w)) (pure (.inq q))) cTrue k) cFalse) =
      Rule.evalAny rs w q := by
  induction rs with
  | nil => rfl
  | cons r rest ih =>
    simp only [List.map_cons, loopM, pure_ok, methSatisfied_ok, Rule.evalAny]
    cases hr : Rule.eval r w q with
    | error e => rfl
    | ok b =>
      cases b
      · simp only [liftR_ok, iteM_ok, truth_bool, Bool.false_eq_true, ↓reduceIte]
        simpa only [pure_ok] using ih
      · rfl

theorem gen_Or (rs : List Rule) (w : PyVal) (q : Option Inquiry) :
    toR (sat_Or (.seq (rs.map V.rule)) (.py w) (.inq q)) = Rule.eval (.or rs) w q := by
  simp only [sat_Or, pure_ok, pyFor, bindM_ok, items, Rule.eval]
  exact loopM_or rs w q

/-! ### rules that look at the inquiry (`inquiry` is the `Inquiry` object handed to `satisfied`, or `None`) -/

theorem gen_SubjectEqual (w : PyVal) (q : Option Inquiry) :
    toR (sat_SubjectEqual (.py w) (.inq q)) = Rule.eval .subjectEqual w q := by
  cases q with
  | none => rfl
  | some q => cases w <;> simp [sat_SubjectEqual, pyAnd, truth, isinstanceM, isStr, attrM, cmpEq, cmp2, Rule.eval]

theorem gen_ActionEqual (w : PyVal) (q : Option Inquiry) :
    toR (sat_ActionEqual (.py w) (.inq q)) = Rule.eval .actionEqual w q := by
  cases q with
  | none => rfl
  | some q => cases w <;> simp [sat_ActionEqual, pyAnd, truth, isinstanceM, isStr, attrM, cmpEq, cmp2, Rule.eval]

theorem gen_ResourceIn (w : PyVal) (q : Option Inquiry) :
    toR (sat_ResourceIn (.py w) (.inq q)) = Rule.eval .resourceIn w q := by
  cases q with
  | none => rfl
  | some q => cases w <;> simp [sat_ResourceIn, pyAnd, truth, isinstanceM, isList, attrM, cmpIn, Rule.eval]

/-- the branch of the model for a rule created with an attribute name -/
def attrBranch (a w iv : PyVal) : R :=
  match iv with
  | .dict kvs =>
    if !hashable a then .error .raised
    else (match a with
          | .str k => (match lookup k kvs with
                       | some v => .ok (pyEq w v)
                       | Option.none => .ok false)
          | _ => .ok false)
  | _ => .ok false

theorem evalInqMatch_some (f : InqField) (a w : PyVal) (q : Inquiry) :
    Rule.evalInqMatch f (some a) w (some q) = attrBranch a w (q.field f) := rfl

/-- the body shared by `SubjectMatch` / `ActionMatch` / `ResourceMatch`, for the inquiry field `iv` -/
theorem match_body (a : PyVal) (ha : a ≠ .none) (w iv : PyVal) :
    toR (iteM (isNotNoneM (pure (V.py a)))
      (iteM (pyAnd (isinstanceM (pure (V.py iv)) "dict") (fun _ => cmpIn (pure (V.py a)) (pure (V.py iv))))
        (bindM (subscriptM (pure (V.py iv)) (pure (V.py a))) fun v => cmpEq (pure (V.py w)) (pure v))
        cFalse)
      (cmpEq (pure (V.py w)) (pure (V.py iv)))) = attrBranch a w iv := by
  unfold attrBranch
  have hnn : isNotNoneM (pure (V.py a)) = .ok (.py (.bool true)) := by
    cases a <;> simp_all [isNotNoneM, isNoneM]
  simp only [hnn, iteM_ok, truth_bool, ↓reduceIte]
  cases iv <;> try (simp [isinstanceM, isDict, pyAnd]; done)
  rename_i kvs
  simp only [isinstanceM, pure_ok, bindM_ok, isDict, ofBool_eq, pyAnd, truth_bool, ↓reduceIte, cmpIn, dictHas]
  by_cases hh : hashable a = true
  · simp only [hh, Bool.not_true, Bool.false_eq_true, ↓reduceIte]
    cases a <;> try (simp [liftR_ok]; done)
    rename_i k
    simp only [liftR_ok, iteM_ok, truth_bool, subscriptM, bindM_ok]
    cases lookup k kvs <;> simp [cmpEq, cmp2]
  · have hh' : hashable a = false := by simpa using hh
    simp [hh', raiseM]

theorem gen_match (sat : V → V → V → M) (name : String) (f : InqField)
    (hsat : ∀ sa w q, sat sa w q = (iteM (pyNot (pure q)) cFalse
      (bindM (attrM (pure q) name) fun iv =>
        (iteM (isNotNoneM (pure sa))
          (iteM (pyAnd (isinstanceM (pure iv) "dict") (fun _ => (cmpIn (pure sa) (pure iv))))
            (bindM (subscriptM (pure iv) (pure sa)) fun iv' => (cmpEq (pure w) (pure iv')))
            cFalse)
          (cmpEq (pure w) (pure iv))))))
    (hattr : ∀ q : Inquiry, attrM (.ok (.inq (some q))) name = .ok (.py (q.field f)))
    (attr : Option PyVal) (hn : attr ≠ some .none) (w : PyVal) (q : Option Inquiry) :
    toR (sat (.py (attr.getD .none)) (.py w) (.inq q)) = Rule.eval (.inqMatch f attr) w q := by
  rw [hsat]
  cases q with
  | none => rfl
  | some q =>
    simp only [pure_ok, pyNot_ok, truth_inq, Option.isSome_some, Bool.not_true, iteM_ok, truth_bool, Bool.false_eq_true,
      ↓reduceIte, hattr, bindM_ok, Rule.eval]
    cases attr with
    | none => simp [isNotNoneM, isNoneM, cmpEq, cmp2, Rule.evalInqMatch]
    | some a =>
      rw [evalInqMatch_some]
      have ha : a ≠ .none := fun e => hn (by rw [e])
      have := match_body a ha w (q.field f)
      simp only [pure_ok] at this
      simp only [Option.getD_some]
      rw [this]

theorem gen_SubjectMatch (attr : Option PyVal) (hn : attr ≠ some .none) (w : PyVal) (q : Option Inquiry) :
    toR (sat_SubjectMatch (.py (attr.getD .none)) (.py w) (.inq q)) = Rule.eval (.inqMatch .subject attr) w q :=
  gen_match sat_SubjectMatch "subject" .subject (fun _ _ _ => rfl) (fun _ => rfl) attr hn w q

theorem gen_ActionMatch (attr : Option PyVal) (hn : attr ≠ some .none) (w : PyVal) (q : Option Inquiry) :
    toR (sat_ActionMatch (.py (attr.getD .none)) (.py w) (.inq q)) = Rule.eval (.inqMatch .action attr) w q :=
  gen_match sat_ActionMatch "action" .action (fun _ _ _ => rfl) (fun _ => rfl) attr hn w q

theorem gen_ResourceMatch (attr : Option PyVal) (hn : attr ≠ some .none) (w : PyVal) (q : Option Inquiry) :
    toR (sat_ResourceMatch (.py (attr.getD .none)) (.py w) (.inq q)) = Rule.eval (.inqMatch .resource attr) w q :=
  gen_match sat_ResourceMatch "resource" .resource (fun _ _ _ => rfl) (fun _ => rfl) attr hn w q

/-! ### `PairsEqual` -/

theorem pyEq_int (a b : Int) : pyEq (.int a) (.int b) = (a == b) := by
  simp [pyEq, asNum, numEq]

theorem pyEq_str (a b : List Char) : pyEq (.str a) (.str b) = (a == b) := rfl

/-- one iteration of the loop of `PairsEqual` against the model's `pairStep` -/
theorem pair_iter (p : PyVal) (k : M) :
    (iteM (cmpNe (callLen (pure (V.py p))) (cInt (2)))
      cFalse
      (iteM (pyAnd (pyNot (isinstanceM (subscriptM (pure (V.py p)) (cInt (0))) "str")) (fun _ => (pyNot (isinstanceM (subscriptM (pure (V.py p)) (cInt (1))) "str"))))
      cFalse
      (iteM (cmpNe (subscriptM (pure (V.py p)) (cInt (0))) (subscriptM (pure (V.py p)) (cInt (1))))
      cFalse
      k))) = (match Rule.pairStep p with | some r => liftR r | Option.none => k) := by
  cases p with
  | none => rfl
  | bool b => rfl
  | int n => rfl
  | flt a e => rfl
  | str cs =>
    match cs with
    | [] => rfl
    | [a] => rfl
    | [a, b] =>
      by_cases hab : a = b
      · subst hab; simp [callLen, cInt, cmpNe, cmp2, pyEq_int, subscriptM, isinstanceM, isStr, pyAnd, pyEq_str, Rule.pairStep]
      · simp [callLen, cInt, cmpNe, cmp2, pyEq_int, subscriptM, isinstanceM, isStr, pyAnd, pyEq_str, Rule.pairStep, hab]
    | a :: b :: c :: rest =>
      have : ¬ ((rest.length : Int) + 1 + 1 + 1 = 2) := by omega
      simp [callLen, cInt, cmpNe, cmp2, pyEq_int, Rule.pairStep, this]
  | list xs =>
    match xs with
    | [] => rfl
    | [a] => rfl
    | [a, b] =>
      cases ha : isStr a <;> cases hb : isStr b <;> cases hab : pyEq a b <;>
        simp [callLen, cInt, cmpNe, cmp2, pyEq_int, subscriptM, isinstanceM, pyAnd, Rule.pairStep, ha, hb, hab]
    | a :: b :: c :: rest =>
      have : ¬ ((rest.length : Int) + 1 + 1 + 1 = 2) := by omega
      simp [callLen, cInt, cmpNe, cmp2, pyEq_int, Rule.pairStep, this]
  | tuple xs =>
    match xs with
    | [] => rfl
    | [a] => rfl
    | [a, b] =>
      cases ha : isStr a <;> cases hb : isStr b <;> cases hab : pyEq a b <;>
        simp [callLen, cInt, cmpNe, cmp2, pyEq_int, subscriptM, isinstanceM, pyAnd, Rule.pairStep, ha, hb, hab]
    | a :: b :: c :: rest =>
      have : ¬ ((rest.length : Int) + 1 + 1 + 1 = 2) := by omega
      simp [callLen, cInt, cmpNe, cmp2, pyEq_int, Rule.pairStep, this]
  | dict kvs =>
    match kvs with
    | [] => rfl
    | [a] => rfl
    | [a, b] => rfl
    | a :: b :: c :: rest =>
      have : ¬ ((rest.length : Int) + 1 + 1 + 1 = 2) := by omega
      simp [callLen, cInt, cmpNe, cmp2, pyEq_int, Rule.pairStep, this]

theorem loopM_pairs (ps : List PyVal) :
    toR (loopM (ps.map V.py) (fun l k =>
      (iteM (cmpNe (callLen (pure l)) (cInt (2)))
        cFalse
        (iteM (pyAnd (pyNot (isinstanceM (subscriptM (pure l) (cInt (0))) "str")) (fun _ => (pyNot (isinstanceM (subscriptM (pure l) (cInt (1))) "str"))))
        cFalse
        (iteM (cmpNe (subscriptM (pure l) (cInt (0))) (subscriptM (pure l) (cInt (1))))
        cFalse
        k)))) cTrue) = Rule.evalPairs ps := by
  induction ps with
  | nil => rfl
  | cons p rest ih =>
    simp only [List.map_cons, loopM, Rule.evalPairs]
    rw [pair_iter]
    cases Rule.pairStep p with
    | none => exact ih
    | some r => exact toR_liftR r

theorem gen_PairsEqual (w : PyVal) (q : V) : toR (sat_PairsEqual (.py w) q) = Rule.eval .pairsEqual w Option.none := by
  by_cases hl : isList w = true
  · cases w <;> simp [isList] at hl
    rename_i ps
    simp only [sat_PairsEqual, isinstanceM, pure_ok, bindM_ok, ofBool_eq, pyNot_ok, truth_bool, iteM_ok, isList, Bool.not_true,
      Bool.false_eq_true, ↓reduceIte, pyFor, items, Rule.eval]
    exact loopM_pairs ps
  · have hl' : isList w = false := by simpa using hl
    cases w <;> simp_all [sat_PairsEqual, isinstanceM, isList, Rule.eval]

/-! ### the two rules that lean on libraries -/

/-- **`RegexMatch.satisfied`**: `bool(self.regex.match(str(what)))` is the model's `evalRegex` (the compiled pattern stands for its
pattern text; what `re` does with it is `Model/Regex.lean`, compared differentially) -/
theorem gen_RegexMatch (pat : List Char) (w : PyVal) (q : V) :
    toR (sat_RegexMatch (.py (.str pat)) (.py w) q) = Rule.eval (.regexMatch pat) w Option.none := by
  simp only [sat_RegexMatch, pure_ok, strPyM, bindM_ok, Rule.eval, Rule.evalRegex]
  cases hs : pyStr w with
  | none => simp [reMatchM, raiseM, bindM, callBool, toR, Except.map]
  | some s =>
    simp only [bindM_ok, reMatchM]
    cases hp : parsePattern (Rule.stripAnchors pat).1 <;> simp [hp, raiseM, bindM, callBool, toR, truth, truthy, Except.map]

/-- **`CIDR.satisfied`**: not a string: false; an address or a network `ipaddress` refuses: false; otherwise containment -/
theorem gen_CIDR (c w : PyVal) (q : V) :
    toR (sat_CIDR (.py c) (.py w) q) = Rule.eval (.cidr c) w Option.none := by
  simp only [sat_CIDR, pure_ok, Rule.eval, Rule.evalCidr]
  cases w <;> simp [isinstanceM, isStr, truth, truthy, toR, Except.map]
  case str a =>
    cases c <;> simp [ipInNetM]
    all_goals (cases hp : Cidr.parseAddr a <;> simp [hp, toR, truth, truthy, Except.map])
    case str.some n v =>
      cases hn : Cidr.parseNet n <;> simp [hn, toR, truth, truthy, Except.map]

/-- what was translated in this run is what the theorems above cover -/
theorem translated_covers :
    translated.map Prod.fst = ["operator.Eq", "operator.NotEq", "operator.Greater", "operator.Less", "operator.GreaterOrEqual",
      "operator.LessOrEqual", "list.In", "list.NotIn", "list.AllIn", "list.AllNotIn", "list.AnyIn", "list.AnyNotIn",
      "logic.Truthy", "logic.Falsy", "logic.And", "logic.Or", "logic.Not", "logic.Any", "logic.Neither", "string.Equal",
      "string.PairsEqual", "string.RegexMatch", "string.StartsWith", "string.EndsWith", "string.Contains", "inquiry.SubjectEqual",
      "inquiry.ActionEqual", "inquiry.ResourceIn", "inquiry.SubjectMatch", "inquiry.ActionMatch", "inquiry.ResourceMatch",
      "net.CIDR"] := by
  decide

end Vakt.GenEquiv
