import Gen.Rules
import Model.Rules
/-!
# The translated rule bodies are the model's rules

`Gen/Rules.lean` is produced from `/repo/vakt/rules/*.py` on every run by `harness/pytolean.py`.  For every translated
rule this file proves that the generated definition, observed through truthiness (`toR`), is `Rule.eval` of the
hand-written model for that rule — for every argument, every offered value and every inquiry.  So the theorems of
`Props/C05.lean` about `Rule.eval` are theorems about the rule bodies as they are written in the source today; a change
to a body changes the generated definition, and its theorem here no longer checks.
-/
namespace Vakt.GenEquiv
open Vakt PyVal Vakt.PyPrim Vakt.GenRules

/-! ### evaluation lemmas for the primitives -/

@[simp] theorem pure_ok (v : V) : (pure v : M) = .ok v := rfl
@[simp] theorem bindM_ok (v : V) (f : V → M) : bindM (.ok v) f = f v := rfl
@[simp] theorem bindM_error (e : PyErr) (f : V → M) : bindM (.error e) f = .error e := rfl
@[simp] theorem iteM_ok (v : V) (t e : M) : iteM (.ok v) t e = if truth v then t else e := rfl
@[simp] theorem notM_ok (v : V) : PyPrim.notM (.ok v) = .ok (.py (.bool (!truth v))) := rfl
@[simp] theorem notM_error (e : PyErr) : PyPrim.notM (.error e) = .error e := rfl
@[simp] theorem ofBool_eq (b : Bool) : ofBool b = .ok (.py (.bool b)) := rfl
@[simp] theorem truth_bool (b : Bool) : truth (.py (.bool b)) = b := rfl
@[simp] theorem truth_set (xs : List PyVal) : truth (.set xs) = !xs.isEmpty := rfl
@[simp] theorem toR_ok (v : V) : toR (.ok v) = .ok (truth v) := rfl
@[simp] theorem toR_error (e : PyErr) : toR (.error e) = .error e := rfl
@[simp] theorem cTrue_eq : cTrue = .ok (.py (.bool true)) := rfl
@[simp] theorem cFalse_eq : cFalse = .ok (.py (.bool false)) := rfl
@[simp] theorem liftR_ok (b : Bool) : liftR (.ok b) = .ok (.py (.bool b)) := rfl
@[simp] theorem liftR_error (e : PyErr) : liftR (.error e) = .error e := rfl
@[simp] theorem callBool_ok (v : V) : callBool (.ok v) = .ok (.py (.bool (truth v))) := rfl

theorem toR_liftR (r : R) : toR (liftR r) = r := by cases r <;> rfl
theorem toR_notM_liftR (r : R) : toR (PyPrim.notM (liftR r)) = r.map (!·) := by cases r <;> rfl

/-! ### comparison rules -/

theorem gen_Eq (v w : PyVal) (q : V) : toR (sat_Eq (.py v) (.py w) q) = Rule.eval (.eq v) w Option.none := by
  cases v <;> rfl

theorem gen_NotEq (v w : PyVal) (q : V) : toR (sat_NotEq (.py v) (.py w) q) = Rule.eval (.notEq v) w Option.none := by
  cases v <;> rfl

theorem gen_Greater (v w : PyVal) (q : V) : toR (sat_Greater (.py v) (.py w) q) = Rule.eval (.greater v) w Option.none := by
  simp only [sat_Greater, cmpGt, cmp2, pure_ok, bindM_ok, toR_liftR, Rule.eval]

theorem gen_Less (v w : PyVal) (q : V) : toR (sat_Less (.py v) (.py w) q) = Rule.eval (.less v) w Option.none := by
  simp only [sat_Less, cmpLt, cmp2, pure_ok, bindM_ok, toR_liftR, Rule.eval]

theorem gen_GreaterOrEqual (v w : PyVal) (q : V) :
    toR (sat_GreaterOrEqual (.py v) (.py w) q) = Rule.eval (.greaterOrEqual v) w Option.none := by
  simp only [sat_GreaterOrEqual, cmpGe, cmp2, pure_ok, bindM_ok, toR_liftR, Rule.eval]

theorem gen_LessOrEqual (v w : PyVal) (q : V) :
    toR (sat_LessOrEqual (.py v) (.py w) q) = Rule.eval (.lessOrEqual v) w Option.none := by
  simp only [sat_LessOrEqual, cmpLe, cmp2, pure_ok, bindM_ok, toR_liftR, Rule.eval]

/-! ### membership rules (`self.data` is the set built from the constructor's arguments) -/

theorem gen_In (d : List PyVal) (w : PyVal) (q : V) : toR (sat_In (.set d) (.py w) q) = Rule.eval (.isIn d) w Option.none := by
  simp only [sat_In, cmpIn, pure_ok, bindM_ok, toR_liftR, Rule.eval]

theorem gen_NotIn (d : List PyVal) (w : PyVal) (q : V) :
    toR (sat_NotIn (.set d) (.py w) q) = Rule.eval (.notIn d) w Option.none := by
  simp only [sat_NotIn, cmpIn, pure_ok, bindM_ok, toR_notM_liftR, Rule.eval]

theorem not_list (w : PyVal) (h : isList w = false) (d : List PyVal) :
    Rule.eval (.allIn d) w Option.none = .error .raised ∧ Rule.eval (.allNotIn d) w Option.none = .error .raised ∧
    Rule.eval (.anyIn d) w Option.none = .error .raised ∧ Rule.eval (.anyNotIn d) w Option.none = .error .raised := by
  cases w <;> simp_all [isList, Rule.eval]

theorem gen_AllIn (d : List PyVal) (w : PyVal) (q : V) :
    toR (sat_AllIn (.set d) (.py w) q) = Rule.eval (.allIn d) w Option.none := by
  by_cases hl : isList w = true
  · cases w <;> simp [isList] at hl
    rename_i xs
    simp only [sat_AllIn, isinstanceM, pure_ok, bindM_ok, ofBool_eq, notM_ok, truth_bool, iteM_ok, isList, Bool.not_true,
      Bool.false_eq_true, ↓reduceIte, callSet, methIssubset, Rule.eval]
    cases toSet xs <;> rfl
  · have hl' : isList w = false := by simpa using hl
    rw [(not_list w hl' d).1]
    cases w <;> simp_all [sat_AllIn, isinstanceM, isList, raiseM]

theorem gen_AllNotIn (d : List PyVal) (w : PyVal) (q : V) :
    toR (sat_AllNotIn (.set d) (.py w) q) = Rule.eval (.allNotIn d) w Option.none := by
  by_cases hl : isList w = true
  · cases w <;> simp [isList] at hl
    rename_i xs
    simp only [sat_AllNotIn, isinstanceM, pure_ok, bindM_ok, ofBool_eq, notM_ok, truth_bool, iteM_ok, isList, Bool.not_true,
      Bool.false_eq_true, ↓reduceIte, callSet, methIssubset, Rule.eval]
    cases toSet xs <;> rfl
  · have hl' : isList w = false := by simpa using hl
    rw [(not_list w hl' d).2.1]
    cases w <;> simp_all [sat_AllNotIn, isinstanceM, isList, raiseM]

theorem filter_nonempty (s : List PyVal) (p : PyVal → Bool) : (!(s.filter p).isEmpty) = s.any p := by
  induction s with
  | nil => rfl
  | cons a rest ih => by_cases ha : p a = true <;> simp_all [List.filter]

theorem gen_AnyNotIn (d : List PyVal) (w : PyVal) (q : V) :
    toR (sat_AnyNotIn (.set d) (.py w) q) = Rule.eval (.anyNotIn d) w Option.none := by
  by_cases hl : isList w = true
  · cases w <;> simp [isList] at hl
    rename_i xs
    simp only [sat_AnyNotIn, isinstanceM, pure_ok, bindM_ok, ofBool_eq, notM_ok, truth_bool, iteM_ok, isList, Bool.not_true,
      Bool.false_eq_true, ↓reduceIte, callSet, methDifference, Rule.eval]
    cases toSet xs with
    | error e => rfl
    | ok s =>
      simp only [Except.map, bindM_ok, members, callBool_ok, toR_ok, truth_bool, truth_set, filter_nonempty]
  · have hl' : isList w = false := by simpa using hl
    rw [(not_list w hl' d).2.2.2]
    cases w <;> simp_all [sat_AnyNotIn, isinstanceM, isList, raiseM]

theorem gen_AnyIn (d : List PyVal) (w : PyVal) (q : V) :
    toR (sat_AnyIn (.set d) (.py w) q) = Rule.eval (.anyIn d) w Option.none := by
  by_cases hl : isList w = true
  · cases w <;> simp [isList] at hl
    rename_i xs
    simp only [sat_AnyIn, isinstanceM, pure_ok, bindM_ok, ofBool_eq, notM_ok, truth_bool, iteM_ok, isList, Bool.not_true,
      Bool.false_eq_true, ↓reduceIte, callSet, methIntersection, Rule.eval]
    cases toSet xs with
    | error e => rfl
    | ok s =>
      simp only [Except.map, bindM_ok, members, callBool_ok, toR_ok, truth_bool, truth_set, filter_nonempty]
  · have hl' : isList w = false := by simpa using hl
    rw [(not_list w hl' d).2.2.1]
    cases w <;> simp_all [sat_AnyIn, isinstanceM, isList, raiseM]

/-! ### boolean rules -/

theorem gen_Truthy (w : PyVal) (q : V) : toR (sat_Truthy (.py w) q) = Rule.eval .truthy w Option.none := by
  simp only [sat_Truthy, callCallable, pure_ok, bindM_ok, cFalse_eq, iteM_ok, truth_bool, Bool.false_eq_true, ↓reduceIte,
    callBool_ok, cmpEq, cmp2, cTrue_eq, liftR_ok, toR_ok, Rule.eval]
  have ht : truth (V.py w) = PyVal.truthy w := rfl
  rw [ht]
  cases PyVal.truthy w <;> decide

theorem gen_Falsy (w : PyVal) (q : V) : toR (sat_Falsy (.py w) q) = Rule.eval .falsy w Option.none := by
  simp only [sat_Falsy, callCallable, pure_ok, bindM_ok, cFalse_eq, iteM_ok, truth_bool, Bool.false_eq_true, ↓reduceIte,
    callBool_ok, cmpEq, cmp2, liftR_ok, toR_ok, Rule.eval]
  have ht : truth (V.py w) = PyVal.truthy w := rfl
  rw [ht]
  cases PyVal.truthy w <;> decide

theorem gen_Any (w q : V) : toR (sat_Any w q) = Rule.eval .any .none Option.none := rfl
theorem gen_Neither (w q : V) : toR (sat_Neither w q) = Rule.eval .neither .none Option.none := rfl

/-! ### string rules (`ci` is the case-insensitivity flag, `val` the string given to the constructor) -/

theorem not_str (w : PyVal) (h : isStr w = false) (v : List Char) (ci : Bool) :
    Rule.eval (.strEqual v ci) w Option.none = .ok false ∧ Rule.eval (.startsWith v ci) w Option.none = .ok false ∧
    Rule.eval (.endsWith v ci) w Option.none = .ok false ∧ Rule.eval (.contains v ci) w Option.none = .ok false := by
  cases w <;> simp_all [isStr, Rule.eval]

theorem gen_Equal (v : List Char) (ci : Bool) (w : PyVal) (q : V) :
    toR (sat_Equal (.py (.bool ci)) (.py (.str v)) (.py w) q) = Rule.eval (.strEqual v ci) w Option.none := by
  by_cases hs : isStr w = true
  · cases w <;> simp [isStr] at hs
    cases ci <;> simp [sat_Equal, isinstanceM, isStr, methLower, cmpEq, cmp2, pyEq, Rule.eval, Rule.fold]
  · have hs' : isStr w = false := by simpa using hs
    rw [(not_str w hs' v ci).1]
    cases w <;> simp_all [sat_Equal, isinstanceM, isStr]

theorem gen_StartsWith (v : List Char) (ci : Bool) (w : PyVal) (q : V) :
    toR (sat_StartsWith (.py (.bool ci)) (.py (.str v)) (.py w) q) = Rule.eval (.startsWith v ci) w Option.none := by
  by_cases hs : isStr w = true
  · cases w <;> simp [isStr] at hs
    cases ci <;> simp [sat_StartsWith, isinstanceM, isStr, methLower, methStartswith, str2, Rule.eval, Rule.fold]
  · have hs' : isStr w = false := by simpa using hs
    rw [(not_str w hs' v ci).2.1]
    cases w <;> simp_all [sat_StartsWith, isinstanceM, isStr]

theorem gen_EndsWith (v : List Char) (ci : Bool) (w : PyVal) (q : V) :
    toR (sat_EndsWith (.py (.bool ci)) (.py (.str v)) (.py w) q) = Rule.eval (.endsWith v ci) w Option.none := by
  by_cases hs : isStr w = true
  · cases w <;> simp [isStr] at hs
    cases ci <;> simp [sat_EndsWith, isinstanceM, isStr, methLower, methEndswith, str2, Rule.eval, Rule.fold]
  · have hs' : isStr w = false := by simpa using hs
    rw [(not_str w hs' v ci).2.2.1]
    cases w <;> simp_all [sat_EndsWith, isinstanceM, isStr]

theorem gen_Contains (v : List Char) (ci : Bool) (w : PyVal) (q : V) :
    toR (sat_Contains (.py (.bool ci)) (.py (.str v)) (.py w) q) = Rule.eval (.contains v ci) w Option.none := by
  by_cases hs : isStr w = true
  · cases w <;> simp [isStr] at hs
    cases ci <;> simp [sat_Contains, isinstanceM, isStr, methLower, cmpIn, Rule.eval, Rule.fold]
  · have hs' : isStr w = false := by simpa using hs
    rw [(not_str w hs' v ci).2.2.2]
    cases w <;> simp_all [sat_Contains, isinstanceM, isStr]

/-- the rule classes whose bodies are covered by a theorem above (AnyIn: see `gen_AnyIn`) -/
theorem translated_covers :
    translated.map Prod.fst = ["operator.Eq", "operator.NotEq", "operator.Greater", "operator.Less", "operator.GreaterOrEqual",
      "operator.LessOrEqual", "list.In", "list.NotIn", "list.AllIn", "list.AllNotIn", "list.AnyIn", "list.AnyNotIn",
      "logic.Truthy", "logic.Falsy", "logic.Any", "logic.Neither", "string.Equal", "string.StartsWith", "string.EndsWith",
      "string.Contains"] := by decide

end Vakt.GenEquiv
