import Gen.Migration
import Gen.Lemmas
/-!
# The translated `MigrationSet.up` / `down` are the model's `request`

`Gen/Migration.lean` is produced from `/repo/vakt/storage/migration.py` on every run.  The two methods act on a store (the recorded
version, the schema) through `m.up()` / `m.down()` and `self.save_applied_number`; the translator makes that explicit by threading
a *world* value through the body (each effect call receives the world and hands the new one to what follows; a raise ends the
request with the world as it then is).  `gen_up` / `gen_down`: run on a migration set and a world, the generated definitions end in
exactly the state `Migration.request` computes, and report a raise exactly when `request` does - for every list of order numbers,
every start state, every request number and every fault plan.
-/
namespace Vakt.GenEquiv
open Vakt PyVal Vakt.PyPrim Vakt.GenMigration Vakt.Migration

def ordV (o : Nat) : V := .py (.int (o : Int))
def numV : Option Nat → V
  | some n => .py (.int (n : Int))
  | Option.none => .py .none

theorem gt_nat (n l : Nat) : cmpGt (.ok (ordV n)) (cInt (l : Int)) = ofBool (Decidable.decide (l < n)) := by
  simp only [cmpGt, cmp2, bindM, ordV, cInt, pyGt, pyCmp, asNum, numEq, numLt, liftR, Except.map, ofBool]
  by_cases h1 : n = l
  · subst h1; simp
  · by_cases h2 : l < n
    · have : ¬ ((n : Int) < (l : Int)) := by omega
      have h3 : ¬ ((n : Int) = (l : Int)) := by omega
      simp [h2, h3, this]
    · have : ((n : Int) < (l : Int)) := by omega
      have h3 : ¬ ((n : Int) = (l : Int)) := by omega
      simp [h2, h3, this]

theorem le_nat (n l : Nat) : cmpLe (.ok (ordV n)) (cInt (l : Int)) = ofBool (Decidable.decide (n ≤ l)) := by
  simp only [cmpLe, cmp2, bindM, ordV, cInt, pyLe, pyCmp, asNum, numEq, numLt, liftR, Except.map, ofBool]
  by_cases h1 : n = l
  · subst h1; simp
  · by_cases h2 : n < l
    · have : ((n : Int) < (l : Int)) := by omega
      have h3 : ¬ ((n : Int) = (l : Int)) := by omega
      have h4 : n ≤ l := by omega
      simp [h4, h3, this]
    · have : ¬ ((n : Int) < (l : Int)) := by omega
      have h3 : ¬ ((n : Int) = (l : Int)) := by omega
      have h4 : ¬ n ≤ l := by omega
      simp [h4, h3, this]

/-- one iteration of `up`'s loop -/
def upBody : V → List V → (List V → M) → (List V → M) → M := fun l1_m s1 k1 b1 =>
      (iteM (cmpGt (orderM (pure l1_m)) (lastAppliedM (pure (stGet s1 0))))
      (stepBodyM .up (pure l1_m) (pure (stGet s1 0)) fun w2 =>
      (saveAppliedM (orderM (pure l1_m)) (pure w2) fun w3 =>
      (k1 [w3])))
      (k1 [(stGet s1 0)]))

/-- one iteration of `down`'s loop -/
def downBody : V → List V → (List V → M) → (List V → M) → M := fun l1_m s1 k1 b1 =>
      (iteM (cmpLe (orderM (pure l1_m)) (lastAppliedM (pure (stGet s1 0))))
      (stepBodyM .down (pure l1_m) (pure (stGet s1 0)) fun w2 =>
      (bindM (subM (orderM (pure l1_m)) (cInt (1))) fun v_last_applied =>
      (saveAppliedM (pure v_last_applied) (pure w2) fun w3 =>
      (k1 [w3]))))
      (k1 [(stGet s1 0)]))

/-- the world a request ends in: the model's state and raise flag, whatever the step counter is -/
def IsOutcome (m : M) (f : Fault) (r : MState × Bool) : Prop := ∃ k, m = .ok (.world r.1 k f r.2)

theorem up_loop (f : Fault) (ns : List Nat) : ∀ (k : Nat) (st : MState),
    IsOutcome (loopS (ns.map ordV) upBody [.world st k f false] (fun r => pure (stGet r 0))) f (loop .up f ns k st) := by
  induction ns with
  | nil => intro k st; exact ⟨k, rfl⟩
  | cons n rest ih =>
    intro k st
    simp only [List.map_cons, loopS, upBody, stGet, List.getD_cons_zero, pure_ok, orderM, lastAppliedM, bindM_ok, gt_nat, iteM,
      ofBool, truth, truthy]
    unfold loop
    by_cases hg : st.last < n
    · simp only [hg, decide_true, Bool.not_true, Bool.false_eq_true, if_false, if_true]
      simp only [stepBodyM, bindM_ok, ordV, Int.toNat_natCast]
      by_cases hb : f = .body k
      · subst hb; simp only [beq_self_eq_true, if_true]; exact ⟨k, rfl⟩
      · have hb' : (f == Fault.body k) = false := by simpa using hb
        simp only [hb', Bool.false_eq_true, if_false, saveAppliedM, bindM_ok, pure_ok]
        by_cases hs : f = .save k
        · subst hs; simp only [beq_self_eq_true, if_true]; exact ⟨k, rfl⟩
        · have hs' : (f == Fault.save k) = false := by simpa using hs
          simp only [hs', Bool.false_eq_true, if_false, Int.toNat_natCast]
          exact ih (k + 1) _
    · simp only [hg, decide_false, Bool.not_false, if_true, Bool.false_eq_true, if_false]
      exact ih k st

theorem down_loop (f : Fault) (ns : List Nat) : ∀ (k : Nat) (st : MState),
    IsOutcome (loopS (ns.map ordV) downBody [.world st k f false] (fun r => pure (stGet r 0))) f (loop .down f ns k st) := by
  induction ns with
  | nil => intro k st; exact ⟨k, rfl⟩
  | cons n rest ih =>
    intro k st
    simp only [List.map_cons, loopS, downBody, stGet, List.getD_cons_zero, pure_ok, orderM, lastAppliedM, bindM_ok, le_nat, iteM,
      ofBool, truth, truthy]
    unfold loop
    by_cases hg : n ≤ st.last
    · simp only [hg, decide_true, Bool.not_true, Bool.false_eq_true, if_false, if_true]
      simp only [stepBodyM, bindM_ok, ordV, Int.toNat_natCast]
      by_cases hb : f = .body k
      · subst hb; simp only [beq_self_eq_true, if_true]; exact ⟨k, rfl⟩
      · have hb' : (f == Fault.body k) = false := by simpa using hb
        have hsub : subM (.ok (V.py (.int (n : Int)))) (cInt 1) = .ok (V.py (.int ((n : Int) - 1))) := by
          simp [subM, cInt]
        simp only [hb', Bool.false_eq_true, if_false, saveAppliedM, bindM_ok, pure_ok, hsub]
        by_cases hs : f = .save k
        · subst hs; simp only [beq_self_eq_true, if_true]; exact ⟨k, rfl⟩
        · have hs' : (f == Fault.save k) = false := by simpa using hs
          have hn : ((n : Int) - 1).toNat = n - 1 := by omega
          simp only [hs', Bool.false_eq_true, if_false, hn]
          exact ih (k + 1) _
    · simp only [hg, decide_false, Bool.not_false, if_true, Bool.false_eq_true, if_false]
      exact ih k st

theorem natsOf_map (ns : List Nat) : natsOf (ns.map ordV) = some ns := by
  induction ns with
  | nil => rfl
  | cons n rest ih => simp [List.map_cons, ordV, natsOf, ih] 

theorem eq_nat (o n : Nat) : cmpEq (.ok (ordV o)) (.ok (ordV n)) = ofBool (o == n) := by
  simp only [cmpEq, cmp2, bindM, ordV, liftR, Except.map, ofBool, pyEq, numEq, asNum]
  by_cases h : o = n
  · subst h; simp
  · have : ¬ ((o : Int) = (n : Int)) := by omega
    have h2 : (o == n) = false := by simpa using h
    simp [h2, this]

theorem migrations_eq (orders : List Nat) : migrationsM (.ok (.migset orders)) = .ok (.seq (orders.map ordV)) := rfl

theorem sorted_eq (ns : List Nat) (rev : Bool) :
    sortedByOrderM (.ok (.seq (ns.map ordV))) (.ok (.py (.bool rev))) =
      .ok (.seq ((if rev then (sortAsc ns).reverse else sortAsc ns).map ordV)) := by
  simp only [sortedByOrderM, bindM_ok, natsOf_map, truth, truthy]
  rfl

theorem filter_eq (n : Nat) (ns : List Nat) :
    filterLoop (ns.map ordV) (fun c2_m => cmpEq (orderM (pure c2_m)) (pure (ordV n))) =
      .ok ((ns.filter (· == n)).map ordV) := by
  induction ns with
  | nil => rfl
  | cons o rest ih =>
    have ih' : filterLoop (List.map ordV rest) (fun c2_m => cmpEq (Except.ok c2_m) (Except.ok (ordV n))) =
        .ok ((rest.filter (· == n)).map ordV) := ih
    simp only [List.map_cons, filterLoop, orderM, pure_ok, eq_nat, ofBool, ih', truth, truthy, List.filter_cons]
    cases o == n <;> rfl

theorem filterComp_eq (n : Nat) (ns : List Nat) :
    filterCompM (.ok (.seq (ns.map ordV))) (fun c2_m => cmpEq (orderM (pure c2_m)) (pure (ordV n))) =
      .ok (.seq ((ns.filter (· == n)).map ordV)) := by
  simp only [filterCompM, bindM_ok, items, filter_eq]
  rfl

/-- **`MigrationSet._get_migrations` as translated from the source is the model's `select`** -/
theorem gen_get_migrations (orders : List Nat) (num : Option Nat) (rev : Bool) :
    get_migrations_MigrationSet (.migset orders) (numV num) (.py (.bool rev)) =
      .ok (.seq ((select orders ⟨if rev then .down else .up, num⟩).map ordV)) := by
  cases num with
  | none =>
    cases rev <;>
      simp only [get_migrations_MigrationSet, numV, pure_ok, isNoneM, bindM_ok, ofBool_eq, iteM_ok, truth_bool, if_true,
        migrations_eq, sorted_eq, select] <;> rfl
  | some n =>
    have h := filterComp_eq n orders
    simp only [numV, ordV, pure_ok] at h ⊢
    simp only [get_migrations_MigrationSet, pure_ok, isNoneM, bindM_ok, ofBool_eq, iteM_ok, truth_bool, Bool.false_eq_true,
      if_false, migrations_eq, select]
    exact h

/-- **`MigrationSet.up` as translated from the source is the model's request** -/
theorem gen_up (orders : List Nat) (st : MState) (num : Option Nat) (f : Fault) :
    IsOutcome (up_MigrationSet (.migset orders) (numV num) (.world st 0 f false)) f (request orders st ⟨.up, num⟩ f) := by
  have h := up_loop f (select orders ⟨.up, num⟩) 0 st
  unfold up_MigrationSet pyForS
  simp only [pure_ok, bindM_ok, cFalse_eq, gen_get_migrations, items, Bool.false_eq_true, if_false]
  exact h

/-- **`MigrationSet.down` as translated from the source is the model's request** -/
theorem gen_down (orders : List Nat) (st : MState) (num : Option Nat) (f : Fault) :
    IsOutcome (down_MigrationSet (.migset orders) (numV num) (.world st 0 f false)) f (request orders st ⟨.down, num⟩ f) := by
  have h := down_loop f (select orders ⟨.down, num⟩) 0 st
  unfold down_MigrationSet pyForS
  simp only [pure_ok, bindM_ok, cTrue_eq, gen_get_migrations, items, if_true]
  exact h

/-- the statement is about something: a two-step upgrade interrupted in the second step's bookkeeping -/
example : (request [2, 1] initial ⟨.up, Option.none⟩ (.save 1)) =
    ({ last := 1, schema := [1, 2], trace := [(.up, 1), (.up, 2)] }, true) := by decide

end Vakt.GenEquiv
