import Gen.EquivCheckers
/-!
# The translated `RulesChecker.fits` is the model's `rulesFits`

`gen_RulesChecker_fits`: the definition generated from `/repo/vakt/checker.py` in this run - the loop over the elements, the
inner loop over an attribute dictionary with its `item_result` variable and `break`, `_check_satisfied` swallowing every
exception - is `rulesFits` of the hand-written model, so the theorems of `Props/C04.lean` (`rules_field_iff`,
`attrs_ok_iff`, `rules_total`, `never_match_cases`) are theorems about the method as written today.
-/
namespace Vakt.GenEquiv
open Vakt PyVal Vakt.PyPrim Vakt.GenCheckers

/-! ### `RulesChecker.fits` -/

/-- `_check_satisfied`: the rule's answer, or `False` when anything is raised -/
theorem check_satisfied_eval (a : AttrVal) (w : PyVal) (q : Option Inquiry) :
    check_satisfied_RulesChecker (attrValV a) (.py w) (.inq q) = .ok (.py (.bool (checkSatisfied a w q))) := by
  cases a with
  | junk => rfl
  | rule r =>
    simp only [check_satisfied_RulesChecker, attrValV, pure_ok, methSatisfied, bindM_ok, checkSatisfied]
    cases Rule.eval r w q with
    | error e => rfl
    | ok b => rfl

def pairV (kv : List Char × AttrVal) : V := V.seq [.py (.str kv.1), attrValV kv.2]

/-- the body of the inner loop (over one attribute dictionary) -/
def attrBody (w : PyVal) (q : Option Inquiry) : V → List V → (List V → M) → (List V → M) → M :=
  fun l2_pair s2 k2 b2 =>
      (bindM (seqItemM (pure l2_pair) 0) fun l2_key =>
      (bindM (seqItemM (pure l2_pair) 1) fun l2_rule =>
      (iteM (pyNot (pure (V.py (.bool (isDict w)))))
      (bindM cFalse fun v_item_result =>
      (iteM (pyNot (pure v_item_result))
      (b2 [v_item_result])
      (k2 [v_item_result])))
      (iteM (cmpNotIn (pure l2_key) (pure (V.py w)))
      (bindM cFalse fun v_item_result =>
      (iteM (pyNot (pure v_item_result))
      (b2 [v_item_result])
      (k2 [v_item_result])))
      (bindM (subscriptM (pure (V.py w)) (pure l2_key)) fun v_what_value =>
      (bindM (bindM (pure l2_rule) fun a3 => (bindM (pure v_what_value) fun a4 => (bindM (pure (V.inq q)) fun a5 => (check_satisfied_RulesChecker a3 a4 a5)))) fun v_item_result =>
      (iteM (pyNot (pure v_item_result))
      (b2 [v_item_result])
      (k2 [v_item_result]))))))))

/-- one entry of an attribute dictionary: go on with `True` when the model's `attrStep` holds, else `break` with `False` -/
theorem attrBody_step (w : PyVal) (q : Option Inquiry) (k : List Char) (a : AttrVal) (st : List V)
    (kc bc : List V → M) :
    attrBody w q (pairV (k, a)) st kc bc =
      if attrStep w q k a then kc [V.py (.bool true)] else bc [V.py (.bool false)] := by
  cases w with
  | dict d =>
    cases hl : lookup k d with
    | none =>
      simp [attrBody, pairV, seqItemM, isDict, cmpNotIn, cmpIn, dictHas, hashable, attrStep, hl]
    | some v =>
      have hc := check_satisfied_eval a v q
      simp only [attrBody, pairV, seqItemM, pure_ok, bindM_ok, List.getElem?_cons_zero, List.getElem?_cons_succ, pyNot_ok,
        truth_bool, iteM_ok, isDict, Bool.not_true, Bool.false_eq_true, ↓reduceIte, cmpNotIn, cmpIn, dictHas, hashable,
        hl, Option.isSome_some, liftR_ok, subscriptM, hc, attrStep]
      cases checkSatisfied a v q <;> rfl
  | none => simp [attrBody, pairV, seqItemM, isDict, attrStep]
  | bool b => simp [attrBody, pairV, seqItemM, isDict, attrStep]
  | int n => simp [attrBody, pairV, seqItemM, isDict, attrStep]
  | flt x e => simp [attrBody, pairV, seqItemM, isDict, attrStep]
  | str cs => simp [attrBody, pairV, seqItemM, isDict, attrStep]
  | list xs => simp [attrBody, pairV, seqItemM, isDict, attrStep]
  | tuple xs => simp [attrBody, pairV, seqItemM, isDict, attrStep]

theorem attr_loop (w : PyVal) (q : Option Inquiry) (kvs : List (List Char × AttrVal)) (acc : Bool) (rest : List V → M) :
    loopS (kvs.map pairV) (attrBody w q) [V.py (.bool acc)] rest = rest [V.py (.bool (attrsLoop w q kvs acc))] := by
  induction kvs generalizing acc with
  | nil => rfl
  | cons kv tail ih =>
    obtain ⟨k, a⟩ := kv
    simp only [List.map_cons, loopS, attrBody_step, attrsLoop]
    cases attrStep w q k a
    · rfl
    · simp only [↓reduceIte]; exact ih true

/-- the body of the outer loop (over the elements of the field) -/
def rulesBody (w : PyVal) (q : Option Inquiry) : V → M → M := fun l1_i k1 =>
      (bindM cFalse fun v_item_result =>
      (iteM (typeIsDictM (pure l1_i))
      (pyForS (attrsItemsM (pure l1_i)) (attrBody w q)
      [v_item_result]
      (fun r2 => (iteM (pure (stGet r2 0))
      cTrue
      k1)))
      (iteM (hasSatisfiedM (pure l1_i))
      (bindM (bindM (pure l1_i) fun a6 => (bindM (pure (V.py w)) fun a7 => (bindM (pure (V.inq q)) fun a8 => (check_satisfied_RulesChecker a6 a7 a8)))) fun v_item_result =>
      (iteM (pure v_item_result)
      cTrue
      k1))
      (iteM (pure v_item_result)
      cTrue
      k1))))

theorem rulesBody_step (w : PyVal) (q : Option Inquiry) (e : Elem) (k : M) :
    rulesBody w q (elemV e) k = if rulesElem w q e then cTrue else k := by
  cases e with
  | str s => simp [rulesBody, elemV, typeIsDictM, hasSatisfiedM, rulesElem]
  | rule r =>
    have hc := check_satisfied_eval (.rule r) w q
    simp only [attrValV] at hc
    have hr : rulesElem w q (.rule r) = checkSatisfied (.rule r) w q := rfl
    rw [hr]
    simp only [rulesBody, elemV, pure_ok, cFalse_eq, bindM_ok, typeIsDictM, ofBool_eq, iteM_ok, truth_bool,
      Bool.false_eq_true, ↓reduceIte, hasSatisfiedM, hc]
    rfl
  | attrs kvs =>
    have hr : rulesElem w q (.attrs kvs) = attrsLoop w q kvs false := rfl
    rw [hr]
    simp only [rulesBody, elemV, pure_ok, cFalse_eq, bindM_ok, typeIsDictM, ofBool_eq, iteM_ok, truth_bool, ↓reduceIte,
      pyForS, attrsItemsM, items]
    have := attr_loop w q kvs false (fun r2 => if truth (stGet r2 0) = true then cTrue else k)
    unfold pairV at this
    rw [this]
    rfl

theorem loop_rules (w : PyVal) (q : Option Inquiry) (es : List Elem) :
    toR (loopM (es.map elemV) (rulesBody w q) cFalse) = .ok (rulesLoop w q es) := by
  induction es with
  | nil => rfl
  | cons e rest ih =>
    simp only [List.map_cons, loopM, rulesBody_step, rulesLoop]
    cases rulesElem w q e
    · simpa using ih
    · rfl

/-- **`RulesChecker.fits` as written in the source — the loop over the elements, the inner loop over an attribute
dictionary with its `item_result` variable and `break`, `_check_satisfied` swallowing every exception — is the model's
`rulesFits`** -/
theorem gen_RulesChecker_fits (p : Policy) (f : Field) (w : PyVal) (q : Option Inquiry) :
    toR (fits_RulesChecker (.policy p) (.py (.str (fieldName f).toList)) (.py w) (.inq q)) = rulesFits p f w q := by
  have hd : isinstanceM (.ok (V.py w)) "dict" = .ok (V.py (.bool (isDict w))) := rfl
  show toR (bindM (getattrDynM (pure (V.policy p)) (pure (V.py (.str (fieldName f).toList))) cEmptyList) fun v_where_list =>
      (bindM (isinstanceM (pure (V.py w)) "dict") fun v_is_what_dict =>
      (pyFor (pure v_where_list) _ cFalse))) = _
  simp only [pure_ok, getattr_field, bindM_ok, hd, pyFor, items, rulesFits]
  exact loop_rules w q (p.field f)

theorem translatedRulesChecker_covers : "RulesChecker" ∈ translatedCheckers := by decide

end Vakt.GenEquiv
