import Gen.GuardAudit
import Gen.EquivGuard
import Model.Audit
/-!
# The translated decision methods with their log records are the model's `isAllowedLogged`

`Gen/GuardAudit.lean` is produced from `/repo/vakt/guard.py` on every run: `check_policies_allow`, `is_allowed_check` and `is_allowed`
once more, with every `audit_log.info(..., extra={effect, candidates, deciders})` and the decision-log record of `is_allowed` made
explicit as effects on a log value.  `gen_is_allowed_logged`: for every checker kind, inquiry and storage answer (raises / `None` /
policies / an iterable failing part-way) the translated `is_allowed` returns the model's answer, appends exactly the audit records
`auditOf` lists (one when evaluation completed, none otherwise) and exactly one decision-log record agreeing with the answer -
the C17 theorems are thereby statements about the logging calls as they stand in the source.
-/
namespace Vakt.GenEquiv
open Vakt PyVal Vakt.PyPrim Vakt.GenGuard Vakt.GenGuardAudit

def boolV (b : Bool) : V := .py (.bool b)

/-- a method returned `b` having appended one audit record -/
def ares (au : List AuditRec) (dl : List Bool) (r : Bool × AuditRec) : M :=
  .ok (.seq [boolV r.1, .alog (au ++ [r.2]) dl])

theorem policiesOf_map (fs : List Policy) : policiesOf (.seq (fs.map V.policy)) = some fs := by
  simp only [policiesOf]
  induction fs with
  | nil => rfl
  | cons p rest ih => simp [List.mapM_cons, ih]

theorem policiesOf_one (p : Policy) : policiesOf (.seq [.policy p]) = some [p] := policiesOf_map [p]

/-- what `check_policies_allow` does with the filtered list, log records included -/
def afterFilterA (w : V) (fs : V) : M :=
      (iteM (cmpEq (callLen (pure fs)) (cInt (0)))
      (auditRetM false (pure fs) cEmptyList cFalse (pure w))
      (pyFor (pure fs) (fun l4_p k4 =>
      (iteM (pyNot (methAllowAccess (pure l4_p)))
      (auditRetM false (pure fs) (seqOfM [(pure l4_p)]) cFalse (pure w))
      k4))
      (auditRetM true (pure fs) (pure fs) cTrue (pure w))))

def vetoBodyA (w fs : V) : V → M → M := fun l4_p k4 =>
      (iteM (pyNot (methAllowAccess (pure l4_p)))
      (auditRetM false (pure fs) (seqOfM [(pure l4_p)]) cFalse (pure w))
      k4)

theorem vetoBodyA_step (au : List AuditRec) (dl : List Bool) (fs : List Policy) (p : Policy) (k : M) :
    vetoBodyA (.alog au dl) (.seq (fs.map V.policy)) (.policy p) k =
      if p.allowAccess then k else ares au dl (false, ⟨false, fs, [p]⟩) := by
  simp only [vetoBodyA, pure_ok, methAllowAccess, bindM_ok, ofBool_eq, pyNot_ok, truth_bool, iteM_ok]
  cases p.allowAccess
  · simp only [auditRetM, seqOfM, evalArgs, Except.map, bindM_ok, pure_ok, policiesOf_map, policiesOf_one, cFalse_eq, ares, boolV]
    rfl
  · rfl

theorem veto_loopA (au : List AuditRec) (dl : List Bool) (fs rest : List Policy) :
    loopM (rest.map V.policy) (vetoBodyA (.alog au dl) (.seq (fs.map V.policy)))
        (auditRetM true (pure (.seq (fs.map V.policy))) (pure (.seq (fs.map V.policy))) cTrue (pure (.alog au dl))) =
      (match rest.find? (fun p => !p.allowAccess) with
       | some p => ares au dl (false, ⟨false, fs, [p]⟩)
       | Option.none => ares au dl (true, ⟨true, fs, fs⟩)) := by
  induction rest with
  | nil => simp only [List.map_nil, loopM, auditRetM, pure_ok, bindM_ok, policiesOf_map, cTrue_eq, ares, boolV, List.find?_nil]
  | cons p tail ih =>
    simp only [List.map_cons, loopM, vetoBodyA_step, List.find?_cons]
    cases p.allowAccess
    · rfl
    · simpa using ih

theorem afterFilterA_eq (au : List AuditRec) (dl : List Bool) (fs : List Policy) :
    afterFilterA (.alog au dl) (.seq (fs.map V.policy)) = ares au dl (decideFiltered fs) := by
  cases fs with
  | nil => simp [afterFilterA, callLen, cInt, cmpEq, cmp2, pyEq, asNum, numEq, auditRetM, policiesOf, cEmptyList, ares, boolV,
      decideFiltered, truth, truthy]
  | cons p rest =>
    have hlen : cmpEq (callLen (.ok (V.seq ((p :: rest).map V.policy)))) (cInt (0)) = .ok (.py (.bool false)) := by
      simp only [callLen, bindM_ok, cInt, cmpEq, cmp2, liftR_ok, List.length_map, List.length_cons]
      have : pyEq (.int ((rest.length : Int) + 1)) (.int 0) = false := by
        have h1 : ¬ ((rest.length : Int) + 1 = 0) := by omega
        simp [pyEq, asNum, numEq, h1]
      simpa using this
    show iteM (cmpEq (callLen (.ok (V.seq ((p :: rest).map V.policy)))) (cInt (0))) _
      (pyFor (.ok (V.seq ((p :: rest).map V.policy))) (vetoBodyA (.alog au dl) (.seq ((p :: rest).map V.policy))) _) = _
    rw [hlen]
    simp only [iteM_ok, truth_bool, Bool.false_eq_true, ↓reduceIte, pyFor, bindM_ok, items]
    rw [veto_loopA au dl (p :: rest) (p :: rest)]
    simp only [decideFiltered, List.isEmpty_cons, Bool.false_eq_true, ↓reduceIte]
    cases (p :: rest).find? (fun p => !p.allowAccess) <;> rfl

/-- **`check_policies_allow` with its audit record is the model's `decideCore`** (both components) -/
theorem gen_check_policies_allow_audit (k : CheckerKind) (q : Inquiry) (ps : List Policy) (au : List AuditRec) (dl : List Bool) :
    check_policies_allow_GuardA (.checker k) (.inq (some q)) (.seq (ps.map V.policy)) (.alog au dl) =
      (match decideCore (guardMatch k q) ps with
       | .error e => .error e
       | .ok r => ares au dl r) := by
  have hf := filterLoop_eq (guardMatch k q) (matchCond k q) (gen_match k q) ps
  show bindM (filterCompM (pure (V.seq (ps.map V.policy))) (matchCond k q)) (afterFilterA (.alog au dl)) = _
  simp only [pure_ok, filterCompM, bindM_ok, items, hf, decideCore]
  cases filterM (guardMatch k q) ps with
  | error e => rfl
  | ok fs => exact afterFilterA_eq au dl fs

theorem gen_check_policies_allow_audit_lazy (k : CheckerKind) (q : Inquiry) (ps : List Policy) (n : Nat)
    (au : List AuditRec) (dl : List Bool) :
    check_policies_allow_GuardA (.checker k) (.inq (some q)) (.lazySeq (ps.map V.policy) n) (.alog au dl) =
      (match decideAns (guardMatch k q) (.items ps (some n)) with
       | .error e => .error e
       | .ok r => ares au dl r) := by
  show bindM (filterCompM (pure (V.lazySeq (ps.map V.policy) n)) (matchCond k q)) (afterFilterA (.alog au dl)) = _
  simp only [pure_ok, filterCompM, bindM_ok, List.length_map, decideAns]
  by_cases hn : n ≤ ps.length
  · simp only [hn, ↓reduceIte]
    have hf := filterLoop_eq (guardMatch k q) (matchCond k q) (gen_match k q) (ps.take n)
    rw [← List.map_take, hf]
    cases filterM (guardMatch k q) (ps.take n) <;> rfl
  · simp only [hn, ↓reduceIte]
    have hf := filterLoop_eq (guardMatch k q) (matchCond k q) (gen_match k q) ps
    rw [hf, decideCore]
    cases filterM (guardMatch k q) ps with
    | error e => rfl
    | ok fs => exact afterFilterA_eq au dl fs

/-- **`is_allowed_check` with its audit records** -/
theorem gen_is_allowed_check_audit (k : CheckerKind) (q : Inquiry) (ans : StoreAns) (au : List AuditRec) (dl : List Bool) :
    is_allowed_check_GuardA (.checker k) (.storage ans) (.inq (some q)) (.alog au dl) =
      .ok (.seq [boolV (isAllowed (guardMatch k q) ans), .alog (au ++ auditOf (guardMatch k q) ans) dl]) := by
  cases ans with
  | raises => simp [is_allowed_check_GuardA, methFind, catchAllM, pairM, boolV, isAllowed, decideAns, auditOf, raiseM, bindM]
  | nothing => simp [is_allowed_check_GuardA, methFind, catchAllM, pairM, boolV, isAllowed, decideAns, auditOf, isNoneM, cNone,
      bindM, truth, truthy]
  | items ps fa =>
    cases fa with
    | none =>
      have h := gen_check_policies_allow_audit k q ps au dl
      simp only [is_allowed_check_GuardA, pure_ok, methFind, bindM_ok, isNoneM, ofBool_eq, iteM_ok, truth_bool,
        Bool.false_eq_true, ↓reduceIte, isAllowed, decideAns, auditOf, h]
      cases decideCore (guardMatch k q) ps with
      | error e => simp [callProcM, catchAllM, pairM, boolV]
      | ok r => simp [ares, callProcM, catchAllM, pairM, boolV]
    | some n =>
      have h := gen_check_policies_allow_audit_lazy k q ps n au dl
      simp only [is_allowed_check_GuardA, pure_ok, methFind, bindM_ok, isNoneM, ofBool_eq, iteM_ok, truth_bool,
        Bool.false_eq_true, ↓reduceIte, isAllowed, auditOf, h]
      cases decideAns (guardMatch k q) (.items ps (some n)) with
      | error e => simp [callProcM, catchAllM, pairM, boolV]
      | ok r => simp [ares, callProcM, catchAllM, pairM, boolV]

/-- **`is_allowed` as written in the source, with everything it logs, is the model's `isAllowedLogged`** -/
theorem gen_is_allowed_logged (k : CheckerKind) (q : Inquiry) (ans : StoreAns) (au : List AuditRec) (dl : List Bool) :
    is_allowed_GuardA (.checker k) (.storage ans) (.inq (some q)) (.alog au dl) =
      .ok (.seq [boolV (isAllowedLogged (guardMatch k q) ans).1,
                 .alog (au ++ (isAllowedLogged (guardMatch k q) ans).2.2)
                       (dl ++ (isAllowedLogged (guardMatch k q) ans).2.1.map (·.allowed))]) := by
  simp only [is_allowed_GuardA, pure_ok, bindM_ok, gen_is_allowed_check_audit, callProcM, isAllowedLogged, boolV, iteM_ok,
    truth_bool, List.map_cons, List.map_nil]
  cases isAllowed (guardMatch k q) ans <;> simp [decisionLogM, pairM, truth, truthy]

theorem translatedGuardAudit_covers :
    translatedGuardAudit = ["check_policies_allow", "is_allowed_check", "is_allowed"] := by decide

end Vakt.GenEquiv
