import Gen.Checkers
import Gen.Lemmas
import Model.Checker
/-!
# The translated `fits` methods of the string checkers are the model's checkers

`Gen/Checkers.lean` is produced from `/repo/vakt/checker.py` on every run by `harness/pytolean.py`.
`gen_StringExactChecker_fits` / `gen_StringFuzzyChecker_fits`: the generated definition, observed through truthiness, is
`exactFits` / `fuzzyFits` of the hand-written model, for every policy, field, offered value and inquiry - so the theorems
of `Props/C06.lean` (`exact_iff`, `fuzzy_iff`, `string_total`, ...) are theorems about `StringChecker.fits` as it is
written in the source today.
-/
namespace Vakt.GenEquiv
open Vakt PyVal Vakt.PyPrim Vakt.GenCheckers

/-! ### the string checkers (`StringExactChecker.fits`, `StringFuzzyChecker.fits`) -/

theorem attr_stag (p : Policy) : attrPolicyM (.ok (.policy p)) "start_tag" = .ok (.py (.str [p.stag])) := rfl
theorem attr_etag (p : Policy) : attrPolicyM (.ok (.policy p)) "end_tag" = .ok (.py (.str [p.etag])) := rfl
theorem sub_zero (h : Char) (t : List Char) :
    subscriptM (.ok (.py (.str (h :: t)))) (cInt (0)) = .ok (.py (.str [h])) := rfl
theorem cmpEq_str (a b : List Char) :
    cmpEq (.ok (.py (.str a))) (.ok (.py (.str b))) = .ok (.py (.bool (a == b))) := rfl

theorem idx_last (h : Char) (t : List Char) :
    ∃ c, (h :: t).getLast? = some c ∧ strIndexM (.ok (.py (.str (h :: t)))) (-1) = .ok (.py (.str [c])) := by
  have hlen : (((h :: t).length : Int) + (-1)).toNat = (h :: t).length - 1 := by simp; omega
  have hnn : ¬ ((((h :: t).length : Int) + (-1)) < 0) := by simp; omega
  cases hl : (h :: t).getLast? with
  | none => simp [List.getLast?_eq_none_iff] at hl
  | some c =>
    refine ⟨c, rfl, ?_⟩
    have hget : (h :: t)[(h :: t).length - 1]? = some c := by rw [← List.getLast?_eq_getElem?]; exact hl
    simp only [strIndexM, bindM_ok]
    have hneg : ((-1 : Int) < 0) := by decide
    simp only [hneg, ↓reduceIte, hnn, hlen, hget]

/-- is the element wholly enclosed in the policy's tags -/
def tagCond (p : Policy) (cs : List Char) : Bool :=
  match cs with
  | [] => false
  | h :: _ => h == p.stag && cs.getLast? == some p.etag

theorem inner_tagCond (p : Policy) (cs : List Char) :
    inner p.stag p.etag cs = if tagCond p cs then (cs.drop 1).dropLast else cs := by
  cases cs <;> simp [inner, tagCond]

/-- the test `item and policy.start_tag == item[0] and policy.end_tag == item[-1]` evaluates without error, to a value
whose truth is `tagCond` -/
theorem cond_eval (p : Policy) (cs : List Char) :
    ∃ v, (pyAnd (pure (V.py (.str cs))) (fun _ => (pyAnd (cmpEq (attrPolicyM (pure (V.policy p)) "start_tag") (subscriptM (pure (V.py (.str cs))) (cInt (0)))) (fun _ => (cmpEq (attrPolicyM (pure (V.policy p)) "end_tag") (strIndexM (pure (V.py (.str cs))) (-1))))))) = .ok v ∧
      truth v = tagCond p cs := by
  cases cs with
  | nil => exact ⟨_, rfl, rfl⟩
  | cons h t =>
    obtain ⟨c, hc, hidx⟩ := idx_last h t
    have h1 : truth (V.py (.str (h :: t))) = true := rfl
    simp only [pure_ok, pyAnd, bindM_ok, h1, ↓reduceIte, attr_stag, attr_etag, sub_zero, cmpEq_str, hidx, truth_bool]
    by_cases hs : h = p.stag
    · subst hs
      simp only [beq_self_eq_true, ↓reduceIte]
      refine ⟨_, rfl, ?_⟩
      simp only [truth_bool, tagCond, hc, beq_self_eq_true, Bool.true_and]
      by_cases he : c = p.etag
      · subst he; simp
      · have : ¬ p.etag = c := fun e => he e.symm
        have e1 : (p.etag == c) = false := by simp [this]
        have e2 : (c == p.etag) = false := by simp [he]
        simp [e1, e2]
    · have hne : ¬ p.stag = h := fun e => hs e.symm
      have hb : ([p.stag] == [h]) = false := by simp [hne]
      simp only [hb, Bool.false_eq_true, ↓reduceIte]
      refine ⟨_, rfl, ?_⟩
      simp [tagCond, hs]

/-- … so whatever branch is taken, the text that is then compared is the model's `inner` -/
theorem tag_branch (p : Policy) (cs : List Char) (f : V → M) :
    (iteM (pyAnd (pure (V.py (.str cs))) (fun _ => (pyAnd (cmpEq (attrPolicyM (pure (V.policy p)) "start_tag") (subscriptM (pure (V.py (.str cs))) (cInt (0)))) (fun _ => (cmpEq (attrPolicyM (pure (V.policy p)) "end_tag") (strIndexM (pure (V.py (.str cs))) (-1)))))))
      (bindM (strSlice1m1M (pure (V.py (.str cs)))) fun v => f v)
      (f (V.py (.str cs)))) = f (V.py (.str (inner p.stag p.etag cs))) := by
  obtain ⟨v, hv, ht⟩ := cond_eval p cs
  rw [hv, iteM_ok, ht, inner_tagCond]
  cases tagCond p cs <;> rfl

def fieldName : Field → String
  | .actions => "actions"
  | .subjects => "subjects"
  | .resources => "resources"

theorem getattr_field (p : Policy) (f : Field) :
    getattrDynM (.ok (.policy p)) (.ok (.py (.str (fieldName f).toList))) cEmptyList = .ok (.seq ((p.field f).map elemV)) := by
  cases f <;> rfl

/-- the body of the loop of `StringChecker.fits`, with the comparison of the concrete checker -/
def strBody (cmp : M → M → M) (p : Policy) (w : PyVal) : V → M → M := fun l1_item k1 =>
      (iteM (typeIsNotStrM (pure l1_item))
      k1
      (iteM (pyAnd (pure l1_item) (fun _ => (pyAnd (cmpEq (attrPolicyM (pure (V.policy p)) "start_tag") (subscriptM (pure l1_item) (cInt (0)))) (fun _ => (cmpEq (attrPolicyM (pure (V.policy p)) "end_tag") (strIndexM (pure l1_item) (-1)))))))
      (bindM (strSlice1m1M (pure l1_item)) fun v_item =>
      (iteM (bindM (pure (V.py w)) fun h2_needle => (bindM (pure v_item) fun h3_haystack => (cmp (pure h2_needle) (pure h3_haystack))))
      cTrue
      k1))
      (iteM (bindM (pure (V.py w)) fun h4_needle => (bindM (pure l1_item) fun h5_haystack => (cmp (pure h4_needle) (pure h5_haystack))))
      cTrue
      k1)))

/-- one iteration on a string element: compare with the model's `inner` text, else go on -/
theorem strBody_str (cmp : M → M → M) (p : Policy) (w : PyVal) (cs : List Char) (k : M) :
    strBody cmp p w (V.py (.str cs)) k = iteM (cmp (.ok (V.py w)) (.ok (V.py (.str (inner p.stag p.etag cs))))) cTrue k := by
  simp only [strBody, typeIsNotStrM, pure_ok, bindM_ok, ofBool_eq, iteM_ok, truth_bool, Bool.false_eq_true, ↓reduceIte]
  have tb := tag_branch p cs (fun v => iteM (cmp (.ok (V.py w)) (.ok v)) cTrue k)
  simp only [pure_ok] at tb
  exact tb

theorem strBody_other (cmp : M → M → M) (p : Policy) (w : PyVal) (e : Elem) (he : e.isStr = false) (k : M) :
    strBody cmp p w (elemV e) k = k := by
  cases e <;> simp_all [Elem.isStr, strBody, elemV, typeIsNotStrM]

theorem loop_exact (p : Policy) (w : PyVal) (es : List Elem) :
    toR (loopM (es.map elemV) (strBody cmpEq p w) cFalse) = exactLoop p.stag p.etag w es := by
  induction es with
  | nil => rfl
  | cons e rest ih =>
    cases e with
    | str cs =>
      simp only [List.map_cons, loopM, elemV, exactLoop, strBody_str, cmpEq, cmp2, bindM_ok, liftR_ok, iteM_ok, truth_bool]
      by_cases hc : pyEq w (.str (inner p.stag p.etag cs)) = true
      · simp only [hc, ↓reduceIte]; rfl
      · simp only [hc, Bool.false_eq_true, ↓reduceIte]; exact ih
    | rule r =>
      simp only [List.map_cons, loopM, exactLoop]
      rw [strBody_other cmpEq p w (.rule r) rfl]; exact ih
    | attrs kvs =>
      simp only [List.map_cons, loopM, exactLoop]
      rw [strBody_other cmpEq p w (.attrs kvs) rfl]; exact ih

/-- **`StringExactChecker.fits` as written in the source is the model's `exactFits`** -/
theorem gen_StringExactChecker_fits (p : Policy) (f : Field) (w : PyVal) (q : V) :
    toR (fits_StringExactChecker (.policy p) (.py (.str (fieldName f).toList)) (.py w) q) = exactFits p f w := by
  simp only [fits_StringExactChecker, pure_ok, getattr_field, bindM_ok, pyFor, items, exactFits]
  exact loop_exact p w (p.field f)

theorem loop_fuzzy (p : Policy) (w : PyVal) (es : List Elem) :
    toR (loopM (es.map elemV) (strBody cmpIn p w) cFalse) = fuzzyLoop p.stag p.etag w es := by
  induction es with
  | nil => rfl
  | cons e rest ih =>
    cases e with
    | str cs =>
      simp only [List.map_cons, loopM, elemV, fuzzyLoop, strBody_str]
      cases w <;> try rfl
      rename_i ws
      simp only [cmpIn, bindM_ok, ofBool_eq, iteM_ok, truth_bool]
      by_cases hc : isInfix ws (inner p.stag p.etag cs) = true
      · simp only [hc, ↓reduceIte]; rfl
      · simp only [hc, Bool.false_eq_true, ↓reduceIte]; exact ih
    | rule r =>
      simp only [List.map_cons, loopM, fuzzyLoop]
      rw [strBody_other cmpIn p w (.rule r) rfl]; exact ih
    | attrs kvs =>
      simp only [List.map_cons, loopM, fuzzyLoop]
      rw [strBody_other cmpIn p w (.attrs kvs) rfl]; exact ih

/-- **`StringFuzzyChecker.fits` as written in the source is the model's `fuzzyFits`** -/
theorem gen_StringFuzzyChecker_fits (p : Policy) (f : Field) (w : PyVal) (q : V) :
    toR (fits_StringFuzzyChecker (.policy p) (.py (.str (fieldName f).toList)) (.py w) q) = fuzzyFits p f w := by
  simp only [fits_StringFuzzyChecker, pure_ok, getattr_field, bindM_ok, pyFor, items, fuzzyFits]
  exact loop_fuzzy p w (p.field f)

/-- what was translated in this run covers the two string checkers -/
theorem translatedCheckers_covers :
    "StringExactChecker" ∈ translatedCheckers ∧ "StringFuzzyChecker" ∈ translatedCheckers := by decide

end Vakt.GenEquiv
