import Gen.EquivCheckers
/-!
# The translated `RegexChecker.fits` is the model's `regexFits`

`gen_RegexChecker_fits`: the definition generated from `/repo/vakt/checker.py` in this run (`Gen/Checkers.lean`), observed
through truthiness, is `regexFits` of the hand-written model for every policy, field, offered value and inquiry - so the
theorems of `Props/C03.lean` about `regexFits` / `regexElem` (`elem_split`, `untagged_eq`, `unbalanced_never`, ...) are
theorems about the method as written today.  `self.compile` is read as `compile_regex`: the LRU cache in front of it is
transparent (`compile_cache_transparent`).
-/
namespace Vakt.GenEquiv
open Vakt PyVal Vakt.PyPrim Vakt.GenCheckers

/-! ### `RegexChecker.fits` -/

theorem isInfix_single (c : Char) (cs : List Char) : isInfix [c] cs = cs.contains c := by
  induction cs with
  | nil => rfl
  | cons h t ih =>
    simp only [isInfix, List.isPrefixOf, ih, List.contains_cons]
    by_cases hc : c = h
    · subst hc; simp
    · have : (c == h) = false := by simp [hc]
      simp [this]

/-- the test `policy.start_tag not in i and policy.end_tag not in i` is the model's `!tagged` -/
theorem not_tagged_eval (p : Policy) (cs : List Char) :
    (pyAnd (cmpNotIn (attrPolicyM (pure (V.policy p)) "start_tag") (pure (V.py (.str cs)))) (fun _ => (cmpNotIn (attrPolicyM (pure (V.policy p)) "end_tag") (pure (V.py (.str cs)))))) =
      .ok (.py (.bool (!TagParser.tagged p.stag p.etag cs))) := by
  simp only [pure_ok, attr_stag, attr_etag, cmpNotIn, cmpIn, bindM_ok, ofBool_eq, pyNot_ok, truth_bool, pyAnd, isInfix_single,
    TagParser.tagged]
  cases cs.contains p.stag <;> cases cs.contains p.etag <;> rfl

/-- the body of the loop of `RegexChecker.fits` -/
def rxBody (p : Policy) (w : PyVal) : V → M → M := fun l1_i k1 =>
      (iteM (typeIsNotStrM (pure l1_i))
      k1
      (iteM (pyAnd (cmpNotIn (attrPolicyM (pure (V.policy p)) "start_tag") (pure l1_i)) (fun _ => (cmpNotIn (attrPolicyM (pure (V.policy p)) "end_tag") (pure l1_i))))
      (iteM (cmpNe (pure l1_i) (pure (V.py w)))
      k1
      cTrue)
      (tryCompileM (pure l1_i) (attrPolicyM (pure (V.policy p)) "start_tag") (attrPolicyM (pure (V.policy p)) "end_tag")
      cFalse
      (fun v_pattern => (iteM (reFullmatchM (pure v_pattern) (pure (V.py w)))
      cTrue
      k1)))))

/-- one iteration on a string element is the model's `regexElem` -/
theorem rxBody_str (p : Policy) (w : PyVal) (cs : List Char) (k : M) :
    rxBody p w (V.py (.str cs)) k =
      (match regexElem p.stag p.etag cs w with
       | .next => k
       | .done r => liftR r) := by
  simp only [rxBody, typeIsNotStrM, pure_ok, bindM_ok, ofBool_eq, iteM_ok, truth_bool, Bool.false_eq_true, ↓reduceIte]
  have nt := not_tagged_eval p cs
  simp only [pure_ok] at nt
  rw [nt]
  simp only [iteM_ok, truth_bool, regexElem]
  cases ht : TagParser.tagged p.stag p.etag cs
  · -- no delimiter: plain equality
    simp only [Bool.not_false, ↓reduceIte, cmpNe, cmp2, bindM_ok, liftR_ok, iteM_ok, truth_bool]
    cases pyEq (.str cs) w <;> rfl
  · simp only [Bool.not_true, Bool.false_eq_true, ↓reduceIte, tryCompileM, attr_stag, attr_etag, bindM_ok]
    cases TagParser.scan p.stag p.etag cs with
    | none => rfl
    | some ps =>
      simp only
      cases piecesRe ps with
      | ok r rest =>
        simp only [reFullmatchM, bindM_ok]
        cases w <;> try rfl
        rename_i ws
        simp only [ofBool_eq, iteM_ok, truth_bool]
        cases r.accepts ws <;> rfl
      | invalid => rfl
      | unsupported => rfl

theorem rxBody_other (p : Policy) (w : PyVal) (e : Elem) (he : e.isStr = false) (k : M) :
    rxBody p w (elemV e) k = k := by
  cases e <;> simp_all [Elem.isStr, rxBody, elemV, typeIsNotStrM]

theorem loop_regex (p : Policy) (w : PyVal) (es : List Elem) :
    toR (loopM (es.map elemV) (rxBody p w) cFalse) = regexLoop p.stag p.etag w es := by
  induction es with
  | nil => rfl
  | cons e rest ih =>
    cases e with
    | str cs =>
      simp only [List.map_cons, loopM, elemV, regexLoop, rxBody_str]
      cases regexElem p.stag p.etag cs w with
      | next => exact ih
      | done r => exact toR_liftR r
    | rule r =>
      simp only [List.map_cons, loopM, regexLoop]
      rw [rxBody_other p w (.rule r) rfl]; exact ih
    | attrs kvs =>
      simp only [List.map_cons, loopM, regexLoop]
      rw [rxBody_other p w (.attrs kvs) rfl]; exact ih

/-- **`RegexChecker.fits` as written in the source is the model's `regexFits`** (`self.compile` read as
`compile_regex`: the LRU cache in front of it is transparent, C03 `compile_cache_transparent`) -/
theorem gen_RegexChecker_fits (p : Policy) (f : Field) (w : PyVal) (q : V) :
    toR (fits_RegexChecker (.policy p) (.py (.str (fieldName f).toList)) (.py w) q) = regexFits p f w := by
  simp only [fits_RegexChecker, pure_ok, getattr_field, bindM_ok, pyFor, items, regexFits]
  exact loop_regex p w (p.field f)

theorem translatedRegexChecker_covers : "RegexChecker" ∈ translatedCheckers := by decide

end Vakt.GenEquiv
