#!/bin/sh
# Build the framework offline from files on disk: regenerate Generated.lean from /repo, then lake build.
set -e
cd "$(dirname "$0")"
/venv/bin/python harness/extract.py
/venv/bin/python -c "import sys; sys.path.insert(0, 'harness'); import pytolean; print('rule bodies translated:', len(pytolean.regenerate('${VAKT_REPO:-/repo}', 'lean')[1]))"
cd lean
lake build 2>&1 | tail -5
lake build Gen 2>&1 | tail -2
