#!/bin/sh
# Build the framework offline from files on disk: regenerate Generated.lean from /repo, then lake build.
set -e
cd "$(dirname "$0")"
/venv/bin/python harness/extract.py
cd lean
lake build 2>&1 | tail -5
