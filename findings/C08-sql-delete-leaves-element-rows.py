#!/venv/bin/python
"""Replay of vakt defect 17 against the real code (DESIGN.md section 8): on a plain SQLite connection - foreign keys not enforced -
a policy added under a uid that held another policy before comes back with the deleted policy's elements mixed into its own.
    VAKT_REPO=<tree> /venv/bin/python findings/C08-sql-delete-leaves-element-rows.py
exits 1 and prints what is read back on a tree without the repair (e.g. a worktree of /repo at 1401ef3), exits 0 on /repo b3863c1."""
import os, sys
sys.path.insert(0, os.environ.get('VAKT_REPO', '/repo'))
from sqlalchemy import create_engine
from sqlalchemy.orm import sessionmaker, scoped_session
from vakt.storage.sql import SQLStorage
from vakt.storage.sql.model import Base
from vakt.policy import Policy

engine = create_engine('sqlite:///:memory:')            # no PRAGMA foreign_keys=ON: what a program gets by default
Base.metadata.create_all(engine)
st = SQLStorage(scoped_session(sessionmaker(bind=engine)))
st.add(Policy('a', actions=['old'], subjects=['s-old'], resources=['r-old'], effect='allow'))
st.delete('a')
st.add(Policy('a', actions=['new'], subjects=['s-new'], resources=['r-new'], effect='allow'))
p = st.get('a')
got = (p.actions, p.subjects, p.resources)
print('stored last: actions [new] subjects [s-new] resources [r-new]; read back:', got)
sys.exit(0 if got == (['new'], ['s-new'], ['r-new']) else 1)
