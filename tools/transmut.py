#!/usr/bin/env python3
"""What do the translated obligations alone catch?  Single-point mutation (the mutation operators of tools/automut.py) of exactly
the method bodies that harness/pytolean.py translates into Lean; for every mutant only the translation and the equivalence proofs are
run - `pytolean.regenerate` into a private copy of the Lean project, then `lake build Gen` - no Python is executed, no correspondence,
no oracle.  A mutant is *killed by proof* when some `Gen/Equiv*.lean` no longer builds (or the body is no longer translatable).

usage: transmut.py [--workers N] [--limit N] [--out file.jsonl]
Works on copies under /tmp/transmut (a copy of /repo/vakt per worker, a copy of /verif/lean per worker), removed at the end."""
import argparse, ast, json, os, queue, shutil, subprocess, sys, threading, time

V = os.path.dirname(os.path.dirname(os.path.abspath(__file__)))
sys.path.insert(0, os.path.join(V, 'tools'))
sys.path.insert(0, os.path.join(V, 'harness'))
import automut  # noqa: E402
import pytolean  # noqa: E402

ROOT = '/tmp/transmut'

# file -> {class name or None: [method / function names]} : what the translator reads
TARGETS = {
    'vakt/guard.py': {'Guard': ['check_context_restriction', 'check_policies_allow', 'is_allowed_check', 'is_allowed'],
                      'Inquiry': ['__init__']},
    'vakt/checker.py': {'RegexChecker': ['fits'], 'StringChecker': ['fits'], 'StringExactChecker': ['compare'],
                        'StringFuzzyChecker': ['compare'], 'RulesChecker': ['fits', '_check_satisfied']},
    'vakt/parser.py': {None: ['get_tag_indices', 'compile_regex']},
    'vakt/policy.py': {'Policy': ['_calculate_type', '_check_field_type', '__setattr__', 'from_json', '__init__']},
    'vakt/audit.py': {'PoliciesNopMsg': ['__str__'], 'PoliciesUidMsg': ['__str__'], 'PoliciesDescriptionMsg': ['__str__'],
                      'PoliciesCountMsg': ['__str__']},
    'vakt/cache.py': {'EnfoldCache': ['add', 'update', 'delete', 'get', 'get_all', 'populate', 'retrieve_all'],
                      'AllowanceCache': ['__init__', 'update']},
    'vakt/storage/observable.py': {'ObservableMutationStorage': ['add', 'update', 'delete', 'get', 'get_all', 'retrieve_all']},
    'vakt/storage/memory.py': {'MemoryStorage': ['add', 'get', 'get_all', 'find_for_inquiry', 'update', 'delete']},
    'vakt/storage/abc.py': {'Storage': ['retrieve_all', '_check_limit_and_offset']},
    'vakt/storage/migration.py': {'MigrationSet': ['_get_migrations', 'up', 'down']},
    'vakt/storage/redis.py': {'RedisStorage': ['add', 'get', 'update', 'delete', 'get_all', 'find_for_inquiry', '__feed_policies']},
    'vakt/storage/mongo.py': {'MongoStorage': ['add', 'get', 'update', 'delete', 'get_all', '__feed_policies'],
                              'MongoMigration': ['_each_doc']},
    'vakt/storage/sql/__init__.py': {'SQLStorage': ['add', 'get', 'update', 'delete', 'get_all']},
    'vakt/rules/operator.py': {'*': ['satisfied']}, 'vakt/rules/list.py': {'*': ['satisfied']},
    'vakt/rules/logic.py': {'*': ['satisfied']}, 'vakt/rules/inquiry.py': {'*': ['satisfied']},
    'vakt/rules/string.py': {'Equal': ['satisfied'], 'PairsEqual': ['satisfied'], 'StartsWith': ['satisfied'],
                             'EndsWith': ['satisfied'], 'Contains': ['satisfied'], 'RegexMatch': ['satisfied']},
    'vakt/rules/net.py': {'CIDR': ['satisfied']},
    'vakt/util.py': {'Subject': ['__init__', 'add_listener', 'remove_listener', 'notify']},
}


def line_ranges(tree, spec):
    out = []
    for n in tree.body:
        if isinstance(n, ast.FunctionDef) and None in spec and n.name in spec[None]:
            out.append((n.lineno, n.end_lineno))
        if isinstance(n, ast.ClassDef) and (n.name in spec or '*' in spec):
            names = spec.get(n.name, spec.get('*'))
            for m in n.body:
                if isinstance(m, ast.FunctionDef) and m.name in names:
                    out.append((m.lineno, m.end_lineno))
    return out


def sh(cmd, **kw):
    p = subprocess.run(cmd, shell=True, stdout=subprocess.PIPE, stderr=subprocess.STDOUT, text=True, **kw)
    return p.returncode, p.stdout


def worker(i, jobs, results, lock):
    repo, lean = '%s/repo%d' % (ROOT, i), '%s/lean%d' % (ROOT, i)
    sh('rm -rf %s %s; mkdir -p %s; cp -a /repo/vakt %s/vakt; cp -a %s %s' % (repo, lean, repo, repo, os.path.join(V, 'lean'), lean))
    pytolean.regenerate(repo, lean)
    rc, out = sh('cd %s && lake build Gen 2>&1 | tail -5' % lean, timeout=3600)
    if rc:
        print('worker %d: baseline does not build: %s' % (i, out), file=sys.stderr)
        return
    gen = os.path.join(lean, 'Gen')
    baseline = {f: open(os.path.join(gen, f)).read() for f in os.listdir(gen) if not f.startswith('Equiv') and f != 'Lemmas.lean'}
    while True:
        try:
            rel, tree, path, kind, lineno = jobs.get_nowait()
        except queue.Empty:
            return
        target = os.path.join(repo, rel)
        original = open(target).read()
        rec = {'file': rel, 'line': lineno, 'kind': kind}
        try:
            try:
                new_src = ast.unparse(automut.mutate(tree, path, kind))
                compile(new_src, rel, 'exec')
            except Exception:
                rec['status'] = 'invalid'
                continue
            if new_src == ast.unparse(tree):
                rec['status'] = 'identical'
                continue
            open(target, 'w').write(new_src)
            t0 = time.time()
            pytolean.regenerate(repo, lean)
            changed = any(open(os.path.join(gen, f)).read() != t for f, t in baseline.items())     # (against the unmutated tree)
            if not changed:
                rec['status'] = 'survived (the generated Lean did not change)'
                continue
            rc, out = sh('cd %s && lake build Gen 2>&1 | grep -E "^error|✖" | head -4' % lean, timeout=1800)
            rc2, _ = sh('cd %s && lake build Gen >/dev/null 2>&1' % lean, timeout=1800)
            rec['wall_s'] = round(time.time() - t0, 1)
            if rc2 != 0:
                rec['status'] = 'killed by proof'
                rec['broken'] = out.strip().split('\n')[:3]
            else:
                rec['status'] = 'survived (generated Lean changed, every obligation still builds)'
        finally:
            open(target, 'w').write(original)
            with lock:
                results.append(rec)
                print(json.dumps(rec), flush=True)


def main():
    ap = argparse.ArgumentParser()
    ap.add_argument('--workers', type=int, default=4)
    ap.add_argument('--limit', type=int, default=0)
    ap.add_argument('--out', default='/tmp/transmut_results.jsonl')
    ap.add_argument('--file', default=None, help='only files whose path contains this')
    ap.add_argument('--only', default=None, help='a results file: re-run the mutants recorded there as survivors')
    args = ap.parse_args()
    os.makedirs(ROOT, exist_ok=True)
    jobs = queue.Queue()
    n = 0
    for rel, spec in TARGETS.items():
        if args.file and args.file not in rel:
            continue
        src = open(os.path.join('/repo', rel)).read()
        tree = ast.parse(src)
        ranges = line_ranges(tree, spec)
        c = automut.Collector()
        c.generic_visit(tree)
        for path, kind in c.points:
            node = automut.get_node(tree, path)
            ln = getattr(node, 'lineno', None)
            if ln is None or not any(a <= ln <= b for a, b in ranges):
                continue
            jobs.put((rel, tree, path, kind, ln))
            n += 1
    if args.only:
        want = set()
        for l in open(args.only):
            try:
                r = json.loads(l)
            except ValueError:
                continue
            if r.get('status', '').startswith('survived'):
                want.add((r['file'], r['line'], r['kind']))
        items = []
        while not jobs.empty():
            items.append(jobs.get())
        items = [it for it in items if (it[0], it[4], it[3]) in want]
        for it in items:
            jobs.put(it)
        n = len(items)
    if args.limit:
        items = []
        while not jobs.empty():
            items.append(jobs.get())
        import random
        random.Random(7).shuffle(items)
        for it in items[:args.limit]:
            jobs.put(it)
        n = min(n, args.limit)
    print('%d mutation points inside translated bodies' % n, file=sys.stderr)
    results, lock = [], threading.Lock()
    ts = [threading.Thread(target=worker, args=(i, jobs, results, lock)) for i in range(args.workers)]
    for t in ts:
        t.start()
    for t in ts:
        t.join()
    with open(args.out, 'w') as f:
        for r in results:
            f.write(json.dumps(r) + '\n')
    shutil.rmtree(ROOT, ignore_errors=True)
    tally = {}
    for r in results:
        k = r['status'].split(' (')[0]
        tally[k] = tally.get(k, 0) + 1
    print(json.dumps(tally), file=sys.stderr)


if __name__ == '__main__':
    main()
