#!/usr/bin/env python3
"""Run quick checks against patched scratch worktrees of /repo, several at a time.

usage: matrix.py --jobs jobs.jsonl --out results.jsonl [--workers N] [--tier quick] [--stop-at-first]
A job is {"id": ..., "patch": <path to a diff> | "diff": <diff text>, "checks": ["C01", ...]}.
Every worker owns a worktree (/tmp/mx/w<i>, detached HEAD of /repo) and a private copy of the Lean project
(/tmp/mx/lean<i>), so nothing is written to /repo or to /verif/lean; both are removed at the end.
One result line per (job, check): id, check, rc, verdict line, wall seconds."""
import argparse, json, os, queue, subprocess, sys, threading, time

V = os.path.dirname(os.path.dirname(os.path.abspath(__file__)))
ROOT = '/tmp/mx'


def sh(cmd, **kw):
    p = subprocess.run(cmd, shell=True, stdout=subprocess.PIPE, stderr=subprocess.STDOUT, text=True, **kw)
    return p.returncode, p.stdout


def worker(i, jobs, out, args, lock):
    wt, lean = '%s/w%d' % (args.root, i), '%s/lean%d' % (args.root, i)
    sh('git -C /repo worktree remove --force %s; rm -rf %s %s' % (wt, wt, lean))
    rc, o = sh('git -C /repo worktree add --detach -f %s HEAD' % wt)
    if rc:
        print('worker %d: no worktree: %s' % (i, o), file=sys.stderr)
        return
    sh('cp -a %s %s' % (os.path.join(V, 'lean'), lean))
    env = dict(os.environ, VAKT_REPO=wt, VERIF_NO_EVIDENCE='1', VERIF_LEAN_DIR=lean)
    while True:
        try:
            job = jobs.get_nowait()
        except queue.Empty:
            break
        sh('git -C %s checkout -q -- . && git -C %s clean -fdq' % (wt, wt))
        if job.get('patch'):
            rc, o = sh('git -C %s apply %s' % (wt, job['patch']))
        else:
            p = subprocess.run('git -C %s apply -' % wt, shell=True, input=job['diff'], text=True,
                               stdout=subprocess.PIPE, stderr=subprocess.STDOUT)
            rc, o = p.returncode, p.stdout
        if rc:
            with lock:
                out.write(json.dumps({'id': job['id'], 'check': None, 'rc': None, 'error': 'patch does not apply: ' + o[-200:]}) + '\n')
                out.flush()
            continue
        for c in job['checks']:
            t0 = time.time()
            try:
                rc, o = sh('./check %s --tier %s' % (c, args.tier), cwd=V, env=env, timeout=args.timeout)
            except subprocess.TimeoutExpired:
                rc, o = 'timeout', ''
            lines = [l for l in o.splitlines() if l.startswith(('VIOLATION', 'BROKEN', 'KNOWN-FINDING'))][:2]
            rec = {'id': job['id'], 'check': c, 'rc': rc, 'lines': lines, 'wall_s': round(time.time() - t0, 1)}
            if rc not in (0, 1):
                rec['tail'] = o[-600:]
            with lock:
                out.write(json.dumps(rec) + '\n')
                out.flush()
            if rc == 1 and args.stop_at_first:
                break
    sh('git -C /repo worktree remove --force %s; rm -rf %s %s; git -C /repo worktree prune' % (wt, wt, lean))


def main():
    ap = argparse.ArgumentParser()
    ap.add_argument('--jobs', required=True)
    ap.add_argument('--out', required=True)
    ap.add_argument('--workers', type=int, default=6)
    ap.add_argument('--tier', default='quick')
    ap.add_argument('--timeout', type=int, default=2400)
    ap.add_argument('--stop-at-first', action='store_true')
    ap.add_argument('--root', default=ROOT, help='scratch directory for the worktrees and Lean copies')
    args = ap.parse_args()
    os.makedirs(args.root, exist_ok=True)
    jobs = queue.Queue()
    for l in open(args.jobs):
        if l.strip():
            jobs.put(json.loads(l))
    lock = threading.Lock()
    with open(args.out, 'a') as out:
        ts = [threading.Thread(target=worker, args=(i, jobs, out, args, lock)) for i in range(args.workers)]
        for t in ts:
            t.start()
        for t in ts:
            t.join()


if __name__ == '__main__':
    main()
