#!/usr/bin/env python3
"""Confirm a seeded change and record it under /verif/seeded/<id>/.

usage: seedcheck.py <src dir with patch.diff demo.py meta.json> <seed id, e.g. C01-m1> [--detect]

Confirms, in a scratch worktree of /repo's HEAD (removed afterwards):
  (a) the patch applies, (b) the pinned suite still reports 683 passed with it,
  (c) demo.py fails with it, (d) demo.py passes without it.
With --detect it also applies the patch to /repo itself, runs ./check <property> (quick), records
the outcome and undoes the patch straight afterwards.
"""
import json, os, shutil, subprocess, sys, re, time

src, sid = sys.argv[1], sys.argv[2]
detect = '--detect' in sys.argv
V = '/verif'
prop = sid.split('-')[0]
wt = '/tmp/seedwt-%s-%d' % (sid, os.getpid())
PY = '/venv/bin/python'


def sh(cmd, cwd=None, timeout=1800):
    p = subprocess.run(cmd, shell=True, cwd=cwd, capture_output=True, text=True, timeout=timeout)
    return p.returncode, (p.stdout + p.stderr)


res = {}
sh('git -C /repo worktree add -q --detach %s HEAD' % wt)
try:
    patch = os.path.abspath(os.path.join(src, 'patch.diff'))
    demo = os.path.abspath(os.path.join(src, 'demo.py'))
    rc, out = sh('%s %s' % (PY, demo), cwd=wt)
    res['demo_without_patch_exit'] = rc
    rc, out = sh('git apply %s' % patch, cwd=wt)
    res['patch_applies'] = rc == 0
    if rc != 0:
        res['apply_error'] = out[-500:]
    rc, out = sh('%s -m pytest -q -p no:cacheprovider --timeout=900 --continue-on-collection-errors 2>&1 | tail -3' % PY, cwd=wt)
    m = re.search(r'(\d+) passed', out)
    res['suite_passed'] = int(m.group(1)) if m else None
    res['suite_failed'] = bool(re.search(r'\d+ failed', out))
    rc, out = sh('%s %s' % (PY, demo), cwd=wt)
    res['demo_with_patch_exit'] = rc
    res['demo_with_patch_tail'] = out[-400:]
finally:
    sh('git -C /repo worktree remove --force %s' % wt)
    shutil.rmtree(wt, ignore_errors=True)

ok = (res.get('patch_applies') and res.get('suite_passed') == 683 and not res.get('suite_failed')
      and res.get('demo_without_patch_exit') == 0 and res.get('demo_with_patch_exit') not in (0, None))
res['confirmed'] = bool(ok)
print(json.dumps(res, indent=1))
if not ok:
    sys.exit(1)

dst = os.path.join(V, 'seeded', sid)
os.makedirs(dst, exist_ok=True)
shutil.copy(os.path.join(src, 'patch.diff'), dst)
shutil.copy(os.path.join(src, 'demo.py'), dst)
meta = {}
try:
    meta = json.load(open(os.path.join(src, 'meta.json')))
except Exception:
    pass
meta['property'] = prop
meta['confirmed'] = res
meta['what_i_ran'] = ['git worktree add (scratch, HEAD of /repo)', 'demo.py without patch (exit 0)', 'git apply patch.diff',
                      'pinned suite (683 passed)', 'demo.py with patch (non-zero)', 'worktree removed']
meta['repo_head'] = subprocess.run('git -C /repo rev-parse --short HEAD', shell=True, capture_output=True, text=True).stdout.strip()
if detect:
    dirty = subprocess.run('git -C /repo status --porcelain -- vakt', shell=True, capture_output=True, text=True).stdout.strip()
    if dirty:
        print('refusing --detect: /repo is dirty')
    else:
        try:
            rc, out = sh('git -C /repo apply %s' % os.path.join(dst, 'patch.diff'))
            t0 = time.time()
            rc, out = sh('./check %s --tier quick' % prop, cwd=V, timeout=3600)
            meta['detection'] = {'check': './check %s --tier quick' % prop, 'exit': rc, 'wall_s': round(time.time() - t0, 1),
                                 'violation_line': [l for l in out.splitlines() if l.startswith('VIOLATION')][:1],
                                 'detected': rc == 1}
            print('detect:', rc, [l for l in out.splitlines() if l.startswith('VIOLATION') or 'BROKEN' in l][:2])
        finally:
            sh('git -C /repo checkout -- .')
json.dump(meta, open(os.path.join(dst, 'meta.json'), 'w'), indent=1)
