#!/usr/bin/env python3
"""Rewrite the seeded-changes table in DESIGN.md (between the SEEDTABLE markers) from seeded/*/meta.json."""
import glob, json, os, re
V = os.path.dirname(os.path.dirname(os.path.abspath(__file__)))
rows = []
for d in sorted(glob.glob(os.path.join(V, 'seeded', 'C*'))):
    try:
        m = json.load(open(os.path.join(d, 'meta.json')))
    except Exception:
        continue
    det = m.get('detection', {})
    also = list(m.get('also_detected_by', [])) + ['`%s`' % k for k, v in m.get('cross_detection', {}).items() if v.get('detected')]
    first_missed = m.get('first_run_missed')
    summ = re.sub(r'\s+', ' ', str(m.get('summary', '')))[:170]
    needs = re.sub(r'\s+', ' ', str(m.get('needs', '')))[:130]
    rows.append('| %s | %s | %s | %s | %s |' % (
        os.path.basename(d), summ.replace('|', '/'), needs.replace('|', '/'),
        ('**caught** by `%s`%s' % (det.get('check', '?').replace('./check ', '').replace(' --tier quick', ''),
                                   ' (after the check was strengthened; missed at first)' if first_missed else '')) if det.get('detected')
        else ('outside the property as anchored (kept for the record, see meta.json `scope_note`)' if det.get('counted') is False
              else ('MISSED by %s' % det.get('check', '?') if det else 'not run')),
        ', '.join(also)))
rows = [r.replace('\n', ' ').replace('\r', ' ') for r in rows]
table = '| seed | change | needs | own check (quick tier) | also caught by |\n|---|---|---|---|---|\n' + '\n'.join(rows)
p = os.path.join(V, 'DESIGN.md')
s = open(p).read()
s = re.sub(r'<!-- SEEDTABLE -->.*?<!-- /SEEDTABLE -->', lambda _m: '<!-- SEEDTABLE -->\n' + table + '\n<!-- /SEEDTABLE -->', s, flags=re.S)
open(p, 'w').write(s)
print(len(rows), 'seeds')
