#!/usr/bin/env python3
"""Confirm a round of seeded changes and run detection for them, in parallel, never touching /repo.

usage: seedround.py <src root with Cxx/mN subdirs> <prefix, e.g. r3> [--workers N] [--also C14,...]
For every <src>/Cxx/mN with patch.diff + demo.py that is not yet under /verif/seeded/Cxx-<prefix>mN:
  1. tools/seedcheck.py confirms it in a scratch worktree (patch applies, 683 passed, demo fails with / passes without);
  2. tools/matrix.py runs the quick check of its own property against it (scratch worktree + private Lean copy);
  3. the outcome is written into seeded/<id>/meta.json (`detection`)."""
import json, os, subprocess, sys, concurrent.futures as cf

V = os.path.dirname(os.path.dirname(os.path.abspath(__file__)))
src, prefix = sys.argv[1], sys.argv[2]
workers = int(sys.argv[sys.argv.index('--workers') + 1]) if '--workers' in sys.argv else 6

todo = []
for prop in sorted(os.listdir(src)):
    d = os.path.join(src, prop)
    if not (os.path.isdir(d) and prop.startswith('C')):
        continue
    for m in sorted(os.listdir(d)):
        dd = os.path.join(d, m)
        if os.path.isfile(os.path.join(dd, 'patch.diff')) and os.path.isfile(os.path.join(dd, 'demo.py')):
            sid = '%s-%s%s' % (prop, prefix, m)
            if not os.path.isdir(os.path.join(V, 'seeded', sid)):
                todo.append((dd, sid))


def confirm(job):
    dd, sid = job
    p = subprocess.run(['python3', os.path.join(V, 'tools', 'seedcheck.py'), dd, sid], capture_output=True, text=True)
    return sid, p.returncode, p.stdout[-600:]


confirmed = []
with cf.ThreadPoolExecutor(workers) as ex:
    for sid, rc, out in ex.map(confirm, todo):
        print(sid, 'confirmed' if rc == 0 else 'NOT CONFIRMED: ' + out.replace('\n', ' ')[-400:], flush=True)
        if rc == 0:
            confirmed.append(sid)

jobs = '/tmp/seedround_%s_jobs.jsonl' % prefix
outp = '/tmp/seedround_%s_out.jsonl' % prefix
with open(jobs, 'w') as f:
    for sid in confirmed:
        f.write(json.dumps({'id': sid, 'patch': os.path.join(V, 'seeded', sid, 'patch.diff'), 'checks': [sid.split('-')[0]]}) + '\n')
if os.path.exists(outp):
    os.unlink(outp)
subprocess.run(['python3', os.path.join(V, 'tools', 'matrix.py'), '--jobs', jobs, '--out', outp, '--workers', str(workers), '--root', '/tmp/mx_seed_%s' % prefix])
head = subprocess.run('git -C /repo rev-parse --short HEAD', shell=True, capture_output=True, text=True).stdout.strip()
for l in open(outp):
    r = json.loads(l)
    mp = os.path.join(V, 'seeded', r['id'], 'meta.json')
    meta = json.load(open(mp))
    det = {'check': './check %s --tier quick' % r['check'], 'exit': r['rc'], 'wall_s': r.get('wall_s'),
           'violation_line': [x for x in r.get('lines', []) if x.startswith('VIOLATION')][:1], 'detected': r['rc'] == 1,
           'repo_head': head}
    if r['rc'] != 1:
        meta['first_run_missed'] = True
        if r.get('tail'):
            det['tail'] = r['tail']
    meta['detection'] = det
    json.dump(meta, open(mp, 'w'), indent=1)
    print(r['id'], 'detected' if r['rc'] == 1 else 'MISSED (exit %s)' % r['rc'], det['violation_line'], flush=True)
