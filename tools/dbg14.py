import sys, collections
sys.path.insert(0,'/verif/harness'); sys.path.insert(0,'/repo')
import common, vcheck
from props import c14
ctx = vcheck.Ctx("C14","quick",int(sys.argv[1]) if len(sys.argv)>1 else 0, common.Driver())
out = c14.run(ctx)
print(out.evaluations, len(out.nontrivial), len(out.failures))
c=collections.Counter(f.signature for f in out.failures)
print(c.most_common(20))
seen=set()
for f in sorted(out.failures,key=lambda f:f.size):
    if f.signature in seen: continue
    seen.add(f.signature)
    print('---',f.kind, f.signature, str(f.case)[:600], '|', f.oracle)
print(out.distribution)
