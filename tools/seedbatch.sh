#!/bin/sh
# usage: seedbatch.sh <dir with Cxx/mN subdirs> <suffix, e.g. r2>   - confirm and run detection for every seed found
cd /verif
for d in "$1"/C*/m*; do
  [ -f "$d/patch.diff" ] || continue
  prop=$(basename $(dirname "$d")); m=$(basename "$d")
  id="$prop-$2$m"
  [ -d "seeded/$id" ] && continue
  printf "%s: " "$id"
  python3 tools/seedcheck.py "$d" "$id" --detect 2>&1 | grep -E "detect:|confirmed\": false|refusing" | tr '\n' ' '
  echo
done
