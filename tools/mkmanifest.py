#!/usr/bin/env python3
"""Regenerate MANIFEST.json from the table below (kept in one place so it is always valid)."""
import json, os
V = os.path.dirname(os.path.dirname(os.path.abspath(__file__)))
props = [json.loads(l) for l in open(os.path.join(V, 'properties.jsonl'))]
ids = [p['id'] for p in props]

CLAIMS = json.load(open(os.path.join(V, 'tools', 'claims.json')))

checks = []
for pid in ids:
    if pid not in CLAIMS:
        continue
    c = CLAIMS[pid]
    checks.append({
        'property_id': pid,
        'quick_cmd': './check %s --tier quick' % pid,
        'thorough_cmd': './check %s --tier thorough' % pid,
        'evidence_file': 'evidence/%s.json' % pid,
        'replay_cmd_template': './check %s --replay {path}' % pid,
        'engine': 'lean-model+correspondence',
        'level_claimed': {'category': 'proof', 'text': c['text'], 'design_ref': c.get('design_ref', 'DESIGN.md section 5, ' + pid)},
        'level_note': c['note'],
        'technique': c['technique'],
    })
m = {
    'version': 1,
    'setup_cmd': 'cd /verif && ./setup.sh',
    'hooks': {'guard': 'VAKT_VERIF',
              'enable': 'no source hooks are needed: every observation point is reachable from outside; checks import /repo\'s working tree directly',
              'baseline_off_cmd': 'cd /repo && /venv/bin/python -m pytest -ra -q -p no:cacheprovider --timeout=900 --continue-on-collection-errors',
              'source_commits': [], 'add_only': True},
    'engines': [{'name': 'lean-model+correspondence', 'path': 'lean/ + harness/',
                 'serves_properties': [c['property_id'] for c in checks],
                 'kind_free_text': 'hand-written executable Lean 4 model with machine-checked property theorems (lake build + #print axioms audit), tied to /repo (a) by a differential correspondence run against the compiled model driver, (b) by constants and tables regenerated from /repo on every run, and (c) for 98 method bodies of vakt (the rule bodies, the checkers, the tag scanner, the guard with its log records, the policy object, the inquiry initialiser, the migration runner, the storage wrappers and the Memory / Redis / MongoDB / SQL storage methods) by a Python-to-Lean translator (harness/pytolean.py; effects are made explicit by threading a world value) whose output is proved equal to the model on every run (lean/Gen)'}],
    'checks': checks,
    'notes': 'See DESIGN.md. exit 0 = held; exit 1 = VIOLATION line; exit 2 = machinery broken (never a verdict).',
    'not_applicable': [{'property_id': p, 'reason': 'check not built yet in this session (work in progress, see DESIGN.md section 9); not a claim that the technique cannot apply'}
                       for p in ids if p not in CLAIMS],
}
json.dump(m, open(os.path.join(V, 'MANIFEST.json'), 'w'), indent=1)
print('claimed:', [c['property_id'] for c in checks])
