#!/usr/bin/env python3
"""re-run detection for seeds already confirmed under /verif/seeded.
usage: redetect.py <seed id> [<other property id>]      (with a second argument the result is stored as cross_detection)
       redetect.py --missed                             (every seed whose own check did not detect it)"""
import json, os, subprocess, sys, time
V = os.path.dirname(os.path.dirname(os.path.abspath(__file__)))


def sh(cmd, **kw):
    p = subprocess.run(cmd, shell=True, capture_output=True, text=True, **kw)
    return p.returncode, p.stdout + p.stderr


def one(sid, other=None):
    d = os.path.join(V, 'seeded', sid)
    meta = json.load(open(os.path.join(d, 'meta.json')))
    prop = other or meta['property']
    if sh('git -C /repo status --porcelain -- vakt')[1].strip():
        sys.exit('refusing: /repo is dirty')
    try:
        rc, out = sh('git -C /repo apply %s' % os.path.join(d, 'patch.diff'))
        if rc:
            print(sid, 'patch does not apply to the current HEAD:', out[-200:])
            return
        t0 = time.time()
        rc, out = sh('./check %s --tier quick' % prop, cwd=V, timeout=3600)
        det = {'check': './check %s --tier quick' % prop, 'exit': rc, 'wall_s': round(time.time() - t0, 1),
               'violation_line': [l for l in out.splitlines() if l.startswith('VIOLATION')][:1], 'detected': rc == 1}
    finally:
        sh('git -C /repo checkout -- .')
    if other:
        meta.setdefault('cross_detection', {})[other] = det
    else:
        if meta.get('detection') and not meta['detection'].get('detected') and det['detected']:
            meta['first_run_missed'] = True
        meta['detection'] = det
    json.dump(meta, open(os.path.join(d, 'meta.json'), 'w'), indent=1)
    print(sid, prop, 'detected' if det['detected'] else 'MISSED (exit %d)' % rc, det['violation_line'])


if sys.argv[1] == '--missed':
    for sid in sorted(os.listdir(os.path.join(V, 'seeded'))):
        m = json.load(open(os.path.join(V, 'seeded', sid, 'meta.json')))
        if m.get('confirmed', {}).get('confirmed') and not (m.get('detection') or {}).get('detected'):
            one(sid)
else:
    one(sys.argv[1], sys.argv[2] if len(sys.argv) > 2 else None)
