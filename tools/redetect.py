#!/usr/bin/env python3
"""re-run detection for seeds already confirmed under /verif/seeded.
usage: redetect.py <seed id> [<other property id>]      (with a second argument the result is stored as cross_detection)
       redetect.py --missed | --all                     (every seed whose own check did not detect it | every seed)
The patch is applied in a scratch worktree (VAKT_REPO) with a private copy of the Lean project; /repo is not touched."""
import json, os, subprocess, sys, time
V = os.path.dirname(os.path.dirname(os.path.abspath(__file__)))


def sh(cmd, **kw):
    p = subprocess.run(cmd, shell=True, capture_output=True, text=True, **kw)
    return p.returncode, p.stdout + p.stderr


WT = '/tmp/wtseed'
LEAN = '/tmp/wtseed_lean'


def prepare():
    """a scratch worktree of /repo's HEAD and a private copy of the Lean project: /repo itself is never touched"""
    sh('git -C /repo worktree remove --force %s' % WT)
    sh('git -C /repo worktree prune')
    rc, out = sh('git -C /repo worktree add --detach -f %s HEAD' % WT)
    if rc:
        sys.exit('cannot create worktree: ' + out)
    sh('rm -rf %s && cp -r %s %s' % (LEAN, os.path.join(V, 'lean'), LEAN))


def cleanup():
    sh('git -C /repo worktree remove --force %s' % WT)
    sh('git -C /repo worktree prune')
    sh('rm -rf %s' % LEAN)


def one(sid, other=None):
    d = os.path.join(V, 'seeded', sid)
    meta = json.load(open(os.path.join(d, 'meta.json')))
    prop = other or meta['property']
    sh('git -C %s checkout -q -- . && git -C %s clean -fdq' % (WT, WT))
    try:
        rc, out = sh('git -C %s apply %s' % (WT, os.path.join(d, 'patch.diff')))
        if rc:
            rc, out = sh('git -C %s apply --3way %s' % (WT, os.path.join(d, 'patch.diff')))
            sh('git -C %s reset -q' % WT)
        if rc:
            print(sid, 'patch does not apply to the current HEAD:', out[-200:])
            meta['detection_current_head'] = 'patch does not apply'
            json.dump(meta, open(os.path.join(d, 'meta.json'), 'w'), indent=1)
            return
        t0 = time.time()
        rc, out = sh('./check %s --tier quick' % prop, cwd=V, timeout=3600,
                     env=dict(os.environ, VAKT_REPO=WT, VERIF_NO_EVIDENCE='1', VERIF_LEAN_DIR=LEAN))
        det = {'check': './check %s --tier quick' % prop, 'exit': rc, 'wall_s': round(time.time() - t0, 1),
               'violation_line': [l for l in out.splitlines() if l.startswith('VIOLATION')][:1], 'detected': rc == 1,
               'repo_head': sh('git -C /repo rev-parse --short HEAD')[1].strip()}
    finally:
        sh('git -C %s checkout -q -- . && git -C %s clean -fdq' % (WT, WT))
    if other:
        meta.setdefault('cross_detection', {})[other] = det
    else:
        if meta.get('detection') and not meta['detection'].get('detected') and det['detected']:
            meta['first_run_missed'] = True
        meta['detection'] = det
    json.dump(meta, open(os.path.join(d, 'meta.json'), 'w'), indent=1)
    print(sid, prop, 'detected' if det['detected'] else 'MISSED (exit %d)' % rc, det['violation_line'], flush=True)


prepare()
try:
    if sys.argv[1] in ('--missed', '--all'):
        for sid in sorted(os.listdir(os.path.join(V, 'seeded'))):
            m = json.load(open(os.path.join(V, 'seeded', sid, 'meta.json')))
            if not m.get('confirmed', {}).get('confirmed'):
                continue
            if sys.argv[1] == '--all' or not (m.get('detection') or {}).get('detected'):
                one(sid)
    else:
        one(sys.argv[1], sys.argv[2] if len(sys.argv) > 2 else None)
finally:
    cleanup()
