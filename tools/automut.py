#!/usr/bin/env python3
"""Systematic single-point mutation of /repo/vakt (AST level), to measure what the checks add over the test suite.

For every mutant: (1) the pinned test suite is run on a scratch worktree (outside /repo and /verif); a mutant the
suite kills is of no interest here; (2) a survivor is given to the quick checks of the properties anchored in the
mutated file (VAKT_REPO=<worktree>), stopping at the first one that reports a VIOLATION.  Survivors no check kills
are listed for triage: they are either equivalent mutants (behaviour unchanged / outside every property) or gaps.

usage: automut.py [--workers N] [--only path-substring] [--limit N] [--out file.jsonl]
Nothing is ever written to /repo; worktrees are removed at the end."""
import argparse, ast, copy, json, os, subprocess, sys, threading, time, queue

V = os.path.dirname(os.path.dirname(os.path.abspath(__file__)))
REPO = '/repo'
PY = '/venv/bin/python'

CHECKS = [
    ('vakt/checker.py', ['C03', 'C04', 'C06', 'C16', 'C01', 'C02', 'C07']),
    ('vakt/parser.py', ['C03', 'C16', 'C07', 'C02']),
    ('vakt/guard.py', ['C01', 'C02', 'C17', 'C13', 'C11', 'C16']),
    ('vakt/audit.py', ['C17']),
    ('vakt/policy.py', ['C10', 'C09', 'C01', 'C06']),
    ('vakt/util.py', ['C13', 'C09', 'C11']),
    ('vakt/rules/', ['C05', 'C04', 'C09', 'C16']),
    ('vakt/cache.py', ['C11', 'C12', 'C14', 'C07', 'C17']),
    ('vakt/storage/memory.py', ['C08', 'C14', 'C12', 'C01']),
    ('vakt/storage/observable.py', ['C11', 'C08', 'C07']),
    ('vakt/storage/abc.py', ['C08']),
    ('vakt/storage/migration.py', ['C18']),
    ('vakt/storage/mongo.py', ['C07', 'C08', 'C09', 'C19', 'C18']),
    ('vakt/storage/redis.py', ['C08', 'C09', 'C07']),
    ('vakt/storage/sql/', ['C08', 'C15', 'C07', 'C09', 'C18']),
    ('vakt/effects.py', ['C01', 'C09']),
]

SWAP = {ast.Eq: ast.NotEq, ast.NotEq: ast.Eq, ast.Lt: ast.LtE, ast.LtE: ast.Lt, ast.Gt: ast.GtE, ast.GtE: ast.Gt,
        ast.Is: ast.IsNot, ast.IsNot: ast.Is, ast.In: ast.NotIn, ast.NotIn: ast.In}


def is_log_call(node):
    return isinstance(node, ast.Call) and isinstance(node.func, ast.Attribute) and \
        isinstance(node.func.value, ast.Name) and node.func.value.id in ('log', 'audit_log', 'warnings', 'logging')


class Collector(ast.NodeVisitor):
    """collects (path to node, kind) for every mutation point"""
    def __init__(self):
        self.points = []
        self.stack = []

    def generic_visit(self, node):
        if is_log_call(node):
            return
        if isinstance(node, ast.Expr) and isinstance(node.value, ast.Constant) and isinstance(node.value.value, str):
            return      # docstring
        if isinstance(node, ast.Raise):
            self.points.append((list(self.stack), 'raise->pass'))
            return      # do not mutate inside error messages
        if isinstance(node, ast.Compare):
            for i, op in enumerate(node.ops):
                if type(op) in SWAP:
                    self.points.append((list(self.stack), 'cmp%d:%s->%s' % (i, type(op).__name__, SWAP[type(op)].__name__)))
        if isinstance(node, ast.BoolOp):
            self.points.append((list(self.stack), 'bool:%s' % type(node.op).__name__))
        if isinstance(node, ast.UnaryOp) and isinstance(node.op, ast.Not):
            self.points.append((list(self.stack), 'not-removed'))
        if isinstance(node, ast.Constant) and not isinstance(node.value, str):
            if node.value is True or node.value is False:
                self.points.append((list(self.stack), 'const:%r->%r' % (node.value, not node.value)))
            elif isinstance(node.value, int):
                self.points.append((list(self.stack), 'const:%r->%r' % (node.value, node.value + 1)))
                if node.value != 0:
                    self.points.append((list(self.stack), 'const:%r->%r' % (node.value, node.value - 1)))
        if isinstance(node, ast.Expr) and isinstance(node.value, ast.Call) and not is_log_call(node.value):
            self.points.append((list(self.stack), 'call-deleted'))
        if isinstance(node, ast.AugAssign):
            self.points.append((list(self.stack), 'augassign-deleted'))
        if isinstance(node, ast.Return) and node.value is not None and not (
                isinstance(node.value, ast.Constant) and node.value.value is None):
            self.points.append((list(self.stack), 'return->None'))
            self.points.append((list(self.stack), 'return->not'))
        if isinstance(node, ast.If):
            self.points.append((list(self.stack), 'if->negated'))
        if isinstance(node, ast.Break):
            self.points.append((list(self.stack), 'break->continue'))
        if isinstance(node, ast.Continue):
            self.points.append((list(self.stack), 'continue->break'))
        if isinstance(node, ast.BinOp) and isinstance(node.op, (ast.Add, ast.Sub)):
            self.points.append((list(self.stack), 'binop:%s' % type(node.op).__name__))
        if isinstance(node, ast.ExceptHandler) and node.type is not None:
            self.points.append((list(self.stack), 'except-body->raise'))
        for field, value in ast.iter_fields(node):
            if isinstance(value, list):
                for i, item in enumerate(value):
                    if isinstance(item, ast.AST):
                        self.stack.append((field, i))
                        self.generic_visit(item)
                        self.stack.pop()
            elif isinstance(value, ast.AST):
                self.stack.append((field, None))
                self.generic_visit(value)
                self.stack.pop()


def get_node(tree, path):
    node = tree
    for field, i in path:
        node = getattr(node, field)
        if i is not None:
            node = node[i]
    return node


def set_node(tree, path, new):
    parent = get_node(tree, path[:-1])
    field, i = path[-1]
    if i is None:
        setattr(parent, field, new)
    else:
        getattr(parent, field)[i] = new


def mutate(tree, path, kind):
    t = copy.deepcopy(tree)
    node = get_node(t, path)
    if kind.startswith('cmp'):
        i = int(kind[3:kind.index(':')])
        node.ops[i] = SWAP[type(node.ops[i])]()
    elif kind.startswith('bool:'):
        node.op = ast.Or() if isinstance(node.op, ast.And) else ast.And()
    elif kind == 'not-removed':
        set_node(t, path, node.operand)
    elif kind.startswith('const:'):
        new = kind.split('->')[1]
        node.value = {'True': True, 'False': False}.get(new, None) if new in ('True', 'False') else int(new)
    elif kind in ('call-deleted', 'augassign-deleted', 'raise->pass'):
        set_node(t, path, ast.Pass())
    elif kind == 'return->None':
        node.value = ast.Constant(None)
    elif kind == 'return->not':
        node.value = ast.UnaryOp(ast.Not(), node.value)
    elif kind == 'if->negated':
        node.test = ast.UnaryOp(ast.Not(), node.test)
    elif kind == 'break->continue':
        set_node(t, path, ast.Continue())
    elif kind == 'continue->break':
        set_node(t, path, ast.Break())
    elif kind.startswith('binop:'):
        node.op = ast.Sub() if isinstance(node.op, ast.Add) else ast.Add()
    elif kind == 'except-body->raise':
        node.body = [ast.Raise()]
    ast.fix_missing_locations(t)
    return t


def sh(cmd, **kw):
    p = subprocess.run(cmd, shell=True, capture_output=True, text=True, **kw)
    return p.returncode, p.stdout + p.stderr


def checks_for(rel):
    for prefix, cs in CHECKS:
        if rel.startswith(prefix):
            return cs
    return ['C01']


def worker(wid, jobs, results, args):
    wt = '/tmp/amut/w%d' % wid
    sh('git -C %s worktree add --detach -f %s HEAD' % (REPO, wt))
    lean = '/tmp/amut/lean%d' % wid          # a private copy of the Lean project: a mutant may change Generated.lean
    sh('rm -rf %s && cp -r %s %s' % (lean, os.path.join(V, 'lean'), lean))
    while True:
        try:
            job = jobs.get_nowait()
        except queue.Empty:
            break
        rel, src_tree, path, kind, lineno = job
        target = os.path.join(wt, rel)
        original = open(target).read()
        rec = {'file': rel, 'line': lineno, 'kind': kind}
        try:
            try:
                new_src = ast.unparse(mutate(src_tree, path, kind))
                compile(new_src, rel, 'exec')
            except Exception as e:
                rec['status'] = 'invalid'
                results.put(rec)
                continue
            if new_src == ast.unparse(src_tree):
                rec['status'] = 'identical'
                results.put(rec)
                continue
            open(target, 'w').write(new_src)
            if args.skip_suite:
                out = '683 passed'
            else:
                rc, out = sh('cd %s && %s -m pytest -x -q -p no:cacheprovider --timeout=120 --continue-on-collection-errors 2>&1 | tail -3'
                             % (wt, PY), timeout=900)
            if '683 passed' not in out:
                rec['status'] = 'killed-by-suite'
                results.put(rec)
                continue
            rec['status'] = 'survived-suite'
            rec['checks'] = {}
            for c in checks_for(rel):
                t0 = time.time()
                try:
                    rc, out = sh('./check %s --tier quick' % c, cwd=V, timeout=1500,
                                 env=dict(os.environ, VAKT_REPO=wt, VERIF_NO_EVIDENCE='1', VERIF_LEAN_DIR=lean))
                except subprocess.TimeoutExpired:
                    rc, out = 3, 'timeout'
                rec['checks'][c] = rc
                if rc == 1:
                    rec['killed_by'] = c
                    rec['violation'] = [l for l in out.splitlines() if l.startswith('VIOLATION')][:1]
                    break
                if rc not in (0, 1):
                    rec.setdefault('broken', {})[c] = out[-300:]
            rec['status'] = 'killed-by-check' if 'killed_by' in rec else 'undetected'
            if rec['status'] == 'undetected':
                import difflib
                rec['diff'] = '\n'.join(difflib.unified_diff(ast.unparse(src_tree).splitlines(), new_src.splitlines(), lineterm='', n=2))[:1500]
            results.put(rec)
        finally:
            open(target, 'w').write(original)
    sh('git -C %s worktree remove --force %s' % (REPO, wt))
    sh('rm -rf %s' % lean)


def main():
    ap = argparse.ArgumentParser()
    ap.add_argument('--workers', type=int, default=8)
    ap.add_argument('--only', default='')
    ap.add_argument('--limit', type=int, default=0)
    ap.add_argument('--out', default='/tmp/amut/results.jsonl')
    ap.add_argument('--points', default='', help='file of rel:line:kind lines - run only these mutation points')
    ap.add_argument('--skip-suite', action='store_true', help='the points are known survivors of the test suite')
    args = ap.parse_args()
    os.makedirs('/tmp/amut', exist_ok=True)
    rc, files = sh('git -C %s ls-files vakt' % REPO)
    jobs = queue.Queue()
    n = 0
    points = set(l.strip() for l in open(args.points)) if args.points else None
    for rel in files.split():
        if not rel.endswith('.py') or args.only not in rel:
            continue
        src = open(os.path.join(REPO, rel)).read()
        tree = ast.parse(src)
        col = Collector()
        col.generic_visit(tree)
        for path, kind in col.points:
            node = get_node(tree, path)
            if points is not None and '%s:%d:%s' % (rel, getattr(node, 'lineno', 0), kind) not in points:
                continue
            jobs.put((rel, tree, path, kind, getattr(node, 'lineno', 0)))
            n += 1
            if args.limit and n >= args.limit:
                break
    print('%d mutants' % jobs.qsize(), flush=True)
    results = queue.Queue()
    ths = [threading.Thread(target=worker, args=(i, jobs, results, args)) for i in range(args.workers)]
    for t in ths:
        t.start()
    done = 0
    with open(args.out, 'a') as f:
        while any(t.is_alive() for t in ths) or not results.empty():
            try:
                rec = results.get(timeout=2)
            except queue.Empty:
                continue
            f.write(json.dumps(rec) + '\n')
            f.flush()
            done += 1
            if done % 25 == 0:
                print('%d done' % done, flush=True)
    sh('git -C %s worktree prune' % REPO)
    print('finished: %d' % done)


if __name__ == '__main__':
    main()
