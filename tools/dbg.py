import sys, random, collections, importlib
sys.path.insert(0,'/verif/harness'); sys.path.insert(0,'/repo')
import common, vcheck
pid=sys.argv[1]
mod=importlib.import_module('props.'+pid.lower())
ctx = vcheck.Ctx(pid,'quick',int(sys.argv[2]) if len(sys.argv)>2 else 0, common.Driver())
out = mod.run(ctx)
print(out.evaluations, len(out.nontrivial), out.unmodelled, len(out.failures))
c=collections.Counter(f.signature for f in out.failures)
print(c.most_common(20))
seen=set()
for f in sorted(out.failures,key=lambda f:f.size):
    if f.signature in seen: continue
    seen.add(f.signature)
    print('---',f.kind, f.signature, f.case, 'impl',f.impl,'model',f.model,'|',f.oracle)
print(out.distribution)
